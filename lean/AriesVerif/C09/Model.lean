import AriesVerif.C09.Spec
/-! # C09 — Model: the service loop shared by present-proof and issue-credential (and, structurally, introduce):

arrival: current state (persisted, else `start`) → target state of the message (`nextState`) → `CanTransitionTo`
check → reject (nothing changes) | park at an action event | execute at once;
execution (`handle`): run the state, announce it, re-check the follow-up with `CanTransitionTo`, persist, continue
with the follow-up; an error in the listener abandons the thread. The transition relation and the message targets
are parameters: the driver instantiates them with the tables regenerated from the code. -/
namespace C09

/-- what a state's `Execute` may look at -/
structure Ctx where
  inbound : Bool
  opt : String            -- option the application supplied with Continue ("none" when absent)
  willConfirm : Bool      -- `will_confirm` of the request-presentation that is being answered
deriving Repr

structure Proto where
  can : String → String → Bool                     -- CanTransitionTo (regenerated)
  target : String → Bool → Option String           -- message × outbound? ↦ state (regenerated)
  parks : String → Bool                            -- canTriggerActionEvents
  exec : String → Ctx → Option String              -- Execute: `none` = error, `some "noop"` = no follow-up
  persistEach : Bool                               -- present-proof persists every executed state, issue-credential the last
  abandon : String                                 -- first state of the abandon path
  recheck : Bool                                   -- the listener re-checks a parked message against the state persisted now
  terminal : List String                           -- final states (a stopped thread that is already final stays there)

/-- `handle`: returns (announced post-states, states whose execution completed, failed?) -/
def chain (P : Proto) (ctx : Ctx) : Nat → String → List String × List String × Bool
  | 0, _ => ([], [], true)
  | fuel + 1, s =>
    if s == "noop" then ([], [], false) else
    match P.exec s ctx with
    | none => ([s], [], true)                                   -- the state is announced, then Execute fails
    | some next =>
      if next != "noop" && !P.can s next then ([s], [], true)    -- "invalid state transition"
      else
        let r := chain P ctx fuel next
        (s :: r.1, s :: r.2.1, r.2.2)

structure Parked where
  tid : String
  nxt : String
  willConfirm : Bool
  decided : Bool
deriving Repr

structure St where
  persisted : List (String × String)          -- thread ↦ stored state name (latest first)
  announced : List (String × List String)     -- per op bookkeeping is done by the driver; this is the running log
  parked : List Parked
deriving Repr

def cur (st : St) (tid : String) : String := ((st.persisted.find? (·.1 == tid)).map (·.2)).getD "start"

def setPersisted (st : St) (tid s : String) : St :=
  { st with persisted := (tid, s) :: st.persisted.filter (·.1 != tid) }

/-- what a finished `handle` leaves in the store -/
def persistAfter (P : Proto) (st : St) (tid : String) (r : List String × List String × Bool) : St :=
  if P.persistEach then
    match r.2.1.getLast? with | some s => setPersisted st tid s | none => st
  else if r.2.2 then st
  else match r.2.1.getLast? with | some s => setPersisted st tid s | none => st

inductive Op
  | inbound (tid msg : String) (willConfirm : Bool)
  | outbound (tid msg : String) (willConfirm : Bool)
  | continue_ (k : Nat) (opt : String)      -- k-th action event that is still undecided (oldest first)
  | stop (k : Nat)
deriving Repr

structure Res where
  ok : Bool                -- return value of HandleInbound / HandleOutbound (true for decisions)
  noAction : Bool          -- the decision referred to no (undecided) action event
  raised : Nat             -- action events raised
  announced : List (String × List String)     -- thread ↦ post-states announced by this op
deriving Repr

def fuel : Nat := 8

/-- index (in the list of all action events) of the k-th undecided one -/
def nthUndecided : List Parked → Nat → Nat → Option Nat
  | [], _, _ => none
  | p :: ps, k, i => if p.decided then nthUndecided ps k (i + 1)
      else match k with
        | 0 => some i
        | k' + 1 => nthUndecided ps k' (i + 1)

def parkedAt (st : St) (k : Nat) : Option (Nat × Parked) :=
  match nthUndecided st.parked k 0 with
  | none => none
  | some i => (st.parked[i]?).map fun p => (i, p)

/-- listener: run the chain; on failure run the abandon chain -/
def listen (P : Proto) (st : St) (tid : String) (ctx : Ctx) (first : Option String) : St × List String :=
  match first with
  | some s =>
    let r := chain P ctx fuel s
    let st1 := persistAfter P st tid r
    if r.2.2 then
      let a := chain P ctx fuel P.abandon
      (persistAfter P st1 tid a, r.1 ++ a.1)
    else (st1, r.1)
  | none =>    -- Stop: the abandon chain only
    let a := chain P ctx fuel P.abandon
    (persistAfter P st tid a, a.1)

def step (P : Proto) (st : St) : Op → St × Res
  | .inbound tid m wc =>
    match P.target m false with
    | none => (st, ⟨false, false, 0, []⟩)
    | some nxt =>
      if !P.can (cur st tid) nxt then (st, ⟨false, false, 0, []⟩)
      else if P.parks m then ({ st with parked := st.parked ++ [⟨tid, nxt, wc, false⟩] }, ⟨true, false, 1, []⟩)
      else
        -- executed in the caller's goroutine: an error is returned, nothing is abandoned
        let r := chain P ⟨true, "none", wc⟩ fuel nxt
        (persistAfter P st tid r, ⟨!r.2.2, false, 0, if r.1.isEmpty then [] else [(tid, r.1)]⟩)
  | .outbound tid m wc =>
    match P.target m true with
    | none => (st, ⟨false, false, 0, []⟩)
    | some nxt =>
      if !P.can (cur st tid) nxt then (st, ⟨false, false, 0, []⟩)
      else
        let r := chain P ⟨false, "none", wc⟩ fuel nxt
        (persistAfter P st tid r, ⟨!r.2.2, false, 0, if r.1.isEmpty then [] else [(tid, r.1)]⟩)
  | .continue_ k opt =>
    match parkedAt st k with
    | none => (st, ⟨true, true, 0, []⟩)
    | some (i, p) =>
      let st0 := { st with parked := st.parked.set i { p with decided := true } }
      -- checkStillApplicable: the thread may have moved on since the message arrived
      if P.recheck && !P.can (cur st0 p.tid) p.nxt then (st0, ⟨true, false, 0, []⟩) else
      let r := listen P st0 p.tid ⟨true, opt, p.willConfirm⟩ (some p.nxt)
      (r.1, ⟨true, false, 0, if r.2.isEmpty then [] else [(p.tid, r.2)]⟩)
  | .stop k =>
    match parkedAt st k with
    | none => (st, ⟨true, true, 0, []⟩)
    | some (i, p) =>
      let st0 := { st with parked := st.parked.set i { p with decided := true } }
      if P.recheck && P.terminal.contains (cur st0 p.tid) then (st0, ⟨true, false, 0, []⟩) else
      let r := listen P st0 p.tid ⟨true, "none", p.willConfirm⟩ none
      (r.1, ⟨true, false, 0, if r.2.isEmpty then [] else [(p.tid, r.2)]⟩)

def init : St := ⟨[], [], []⟩

/-! ## `Execute` of the two protocols driven by the correspondence (hand-written from states.go) -/

def ppExec (s : String) (c : Ctx) : Option String :=
  if s == "request-received" then (if c.opt == "pres" then some "presentation-sent" else some "proposal-sent")
  else if s == "presentation-sent" then
    (if c.opt == "pres" then (if c.willConfirm then some "noop" else some "done") else none)
  else if s == "proposal-sent" then (if !c.inbound then some "noop" else if c.opt == "prop" then some "noop" else none)
  else if s == "request-sent" then
    (if !c.inbound then some "noop" else if c.opt == "req" || c.opt == "reqc" then some "noop" else none)
  else if s == "proposal-received" then some "request-sent"
  else if s == "presentation-received" then some "done"
  else if s == "done" || s == "abandoned" then some "noop"
  else none

def icExec (s : String) (c : Ctx) : Option String :=
  if s == "proposal-received" then some "offer-sent"
  else if s == "offer-sent" then (if !c.inbound then some "noop" else if c.opt == "offer" then some "noop" else none)
  else if s == "request-received" then (if c.opt == "cred" then some "credential-issued" else none)
  else if s == "credential-issued" then some "noop"
  else if s == "proposal-sent" then (if !c.inbound then some "noop" else if c.opt == "prop" then some "noop" else none)
  else if s == "offer-received" then (if c.opt == "prop" then some "proposal-sent" else some "request-sent")
  else if s == "request-sent" then some "noop"
  else if s == "credential-received" then some "done"
  else if s == "abandoning" then some "done"
  else if s == "done" then some "noop"
  else none

end C09
