import AriesVerif.C09.Model
import AriesVerif.Generated.States
import AriesVerif.Base.Util
/-! C09 driver glue: instantiates the engine with the tables regenerated from the code, predicts the harness's
    outcome line, and evaluates the property's oracle (path validity) on the IMPLEMENTATION's announced states. -/
namespace C09.Drv
open C09 Util

def canOf (tbl : List (String × String)) (a b : String) : Bool := tbl.contains (a, b)
def targetOf (tbl : List (String × Bool × String)) (m : String) (ob : Bool) : Option String :=
  match tbl.find? (fun t => t.1 == m && t.2.1 == ob) with
  | some t => if t.2.2 == "" then none else some t.2.2
  | none => none

def ppName (v : String) : String → Option String
  | "req" | "reqc" => some (v ++ "/request-presentation")
  | "prop" => some (v ++ "/propose-presentation")
  | "pres" => some (v ++ "/presentation")
  | "ack" => some (v ++ "/ack")
  | "pr" => some (v ++ "/problem-report")
  | _ => none
def icName (v : String) : String → Option String
  | "prop" => some (v ++ "/propose-credential")
  | "offer" => some (v ++ "/offer-credential")
  | "req" => some (v ++ "/request-credential")
  | "cred" => some (v ++ "/issue-credential")
  | "ack" => some (v ++ "/ack")
  | "pr" => some (v ++ "/problem-report")
  | _ => none

structure Setup where
  P : Proto
  name : String → Option String
  graph : Graph

def setup : String → Option Setup
  | "pp2" => some ⟨⟨canOf Gen.presentproofV2_can, targetOf Gen.presentproofV2_target, (· != "2.0/ack"), ppExec, true, "abandoned", true, ["done", "abandoned"]⟩,
                   ppName "2.0", presentproof⟩
  | "pp3" => some ⟨⟨canOf Gen.presentproofV3_can, targetOf Gen.presentproofV3_target, (· != "3.0/ack"), ppExec, true, "abandoned", true, ["done", "abandoned"]⟩,
                   ppName "3.0", presentproof⟩
  | "ic2" => some ⟨⟨canOf Gen.issuecredentialV2_can, targetOf Gen.issuecredentialV2_target, (· != "2.0/ack"), icExec, false, "abandoning", false, ["done"]⟩,
                   icName "2.0", issuecredential⟩
  | "ic3" => some ⟨⟨canOf Gen.issuecredentialV3_can, targetOf Gen.issuecredentialV3_target, (· != "3.0/ack"), icExec, false, "abandoning", false, ["done"]⟩,
                   icName "3.0", issuecredential⟩
  -- introduce: no engine model (the Proto is a placeholder), the oracle judges against the published graph
  | "in1" => some ⟨⟨canOf Gen.issuecredentialV2_can, targetOf Gen.issuecredentialV2_target, (· != "2.0/ack"), icExec, false, "abandoning", false, ["done"]⟩,
                   icName "2.0", introduce⟩
  | _ => none

def parseOp (s : Setup) (line : String) : Option Op :=
  match line.splitOn " " with
  | ["in", t, m] => (s.name m).map fun n => .inbound t n (m == "reqc")
  | ["out", t, m] => (s.name m).map fun n => .outbound t n (m == "reqc")
  | ["cont", i, o] => i.toNat?.map fun i => .continue_ i o
  | ["stop", i] => i.toNat?.map .stop
  | _ => none

def showRes (r : Res) : String :=
  let base := if r.noAction then "noaction" else if r.ok then "ok" else "err"
  let a := if r.raised > 0 then s!" A{r.raised}" else ""
  let ann := r.announced.map fun (t, ss) => s!" {t}:{",".intercalate ss}"
  base ++ a ++ String.join ann

def opThread : Op → Option String
  | .inbound t _ _ => some t | .outbound t _ _ => some t | _ => none

def runOps (P : Proto) : St → List Op → List String
  | _, [] => []
  | st, op :: ops => let r := step P st op; showRes r.2 :: runOps P r.1 ops

def finalState (P : Proto) : St → List Op → St
  | st, [] => st
  | st, op :: ops => finalState P (step P st op).1 ops

/-- histories with an injected transport fault (`fail K`): the engine model does not model transport errors; the Model
    column makes no prediction ("="), the oracle below still judges what the implementation announced and persisted -/
def hasFault (opsS : String) : Bool := (opsS.splitOn ";").any (·.startsWith "fail ")
def noFaultOps (opsS : String) : List String := (opsS.splitOn ";").filter fun o => o != "" && !o.startsWith "fail "

/-! ## the connection protocols (DID Exchange, legacy Connection) between two real agents (harness c09x.go): no engine
    model, the oracle judges the announced sequences and the persisted states against the published graphs -/

def isConnProto (input : String) : Bool := input.startsWith "dx|" || input.startsWith "lc|"

def connGraph (input : String) : Graph := if input.startsWith "dx|" then didexchange else legacyconnection

/-- the persisted state is the last announced one, or one edge ahead of it (the state is persisted before its action
    runs; when the action fails the state is never announced) -/
def persistedOk (g : Graph) (tr : List String) (p : String) : Bool :=
  p == "-" || tr.getLast? == some p || edge g (tr.getLast?.getD g.start) p

def connRank (s : String) : Nat :=
  match s with
  | "null" => 0 | "invited" => 1 | "requested" => 2 | "responded" => 3 | "completed" => 4 | _ => 5

def insertRank (x : String) : List String → List String
  | [] => [x]
  | y :: ys => if connRank x ≤ connRank y then x :: y :: ys else y :: insertRank x ys

/-- the same announcements in the order of the graph -/
def byRank (tr : List String) : List String := tr.foldr insertRank []

def connTraces (implOut : String) : Option (List String × List String) :=
  let tail := (implOut.splitOn "|").getLast?.getD ""
  match tail.splitOn " " with
  | [i, e, "rec", _, _] =>
    let tr (s : String) : List String :=
      let body := (s.drop 2).toString
      if body == "-" then [] else body.splitOn ","
    some (tr i, tr e)
  | _ => none

/-- open finding C09-F4: the post-state event of a state is emitted AFTER that state's action (the send); when the
    peer's answer is processed before the emission, subscribers hear the later state first. The announcements are those
    of a valid path, in another order. -/
def announcedOutOfOrder (input implOut : String) : Bool :=
  let g := connGraph input
  match connTraces implOut with
  | some (ti, te) =>
    (!validTrace g ti && validTrace g (byRank ti) && validTrace g te) ||
    (!validTrace g te && validTrace g (byRank te) && validTrace g ti)
  | none => false

def oracleConn (input implOut : String) : String :=
  let g := connGraph input
  let tail := (implOut.splitOn "|").getLast?.getD ""
  match tail.splitOn " " with
  | [i, e, "rec", ri, re] =>
    let tr (s : String) : List String :=
      let body := (s.drop 2).toString
      if body == "-" then [] else body.splitOn ","
    let st (s : String) : String := (s.drop 2).toString
    let ti := tr i
    let te := tr e
    if announcedOutOfOrder input implOut then "ANNOUNCED-OUT-OF-ORDER i:" ++ ",".intercalate ti ++ " e:" ++ ",".intercalate te
    else if !validTrace g ti then "PATH-VIOLATION inviter:" ++ ",".intercalate ti
    else if !validTrace g te then "PATH-VIOLATION invitee:" ++ ",".intercalate te
    else if !persistedOk g ti (st ri) then "PERSISTED-STATE-OFF-THE-PATH inviter=" ++ st ri
    else if !persistedOk g te (st re) then "PERSISTED-STATE-OFF-THE-PATH invitee=" ++ st re
    else implOut
  | _ => if implOut.startsWith "setup-error" then implOut else "unparsable: " ++ tail

def handle (input : String) : String :=
  if isConnProto input || input.startsWith "in1|" then "=" else
  match input.splitOn "|" with
  | [proto, opsS] =>
    if hasFault opsS then "=" else
    match setup proto with
    | none => "bad-proto"
    | some s =>
      match ((opsS.splitOn ";").filter (· != "")).mapM (parseOp s) with
      | none => "bad-op"
      | some ops =>
        let outs := runOps s.P init ops
        let fin := finalState s.P init ops
        let threads := sortStrings (ops.filterMap opThread).eraseDups
        let dump := threads.map fun t =>
          match fin.persisted.find? (·.1 == t) with
          | some (_, st) => s!"{t}={st}"
          | none => s!"{t}=-"
        "|".intercalate (outs ++ [",".intercalate dump])
  | _ => "bad-input"

/-- overlap: a message of a thread is accepted while an action event of the same thread is still undecided (C09-F1) -/
def overlaps (P : Proto) : St → List Op → Bool
  | _, [] => false
  | st, op :: ops =>
    let hit := match op with
      | .inbound t m _ | .outbound t m _ =>
        (match P.target m (match op with | .outbound .. => true | _ => false) with
          | some nxt => P.can (cur st t) nxt && st.parked.any fun p => p.tid == t && !p.decided
          | none => false)
      | _ => false
    hit || overlaps P (step P st op).1 ops

/-! ## the oracle, evaluated on what the implementation announced -/

/-- parse one outcome of the harness: (base, announced per thread) -/
def parseOutcome (o : String) : String × List (String × List String) :=
  match o.splitOn " " with
  | [] => ("", [])
  | base :: rest =>
    (base, rest.filterMap fun w =>
      match w.splitOn ":" with
      | [t, ss] => if ss == "" then none else some (t, ss.splitOn ",")
      | _ => none)

def appendTrace (acc : List (String × List String)) (t : String) (ss : List String) : List (String × List String) :=
  match acc.find? (·.1 == t) with
  | some _ => acc.map fun (t', l) => if t' == t then (t', l ++ ss) else (t', l)
  | none => acc ++ [(t, ss)]

/-- the property on an observed run: every thread's announced states form a path of the published graph from `start`;
    a rejected message announces nothing; the persisted state is the last announced one -/
def oracle (input implOut : String) : String :=
  if isConnProto input then oracleConn input implOut else
  match input.splitOn "|" with
  | [proto, _] =>
    match setup proto with
    | none => "bad-proto"
    | some s =>
      let outs := implOut.splitOn "|"
      let opOuts := outs.dropLast
      let dump := outs.getLast?.getD ""
      let parsed := opOuts.map parseOutcome
      let traces := parsed.foldl (fun acc p => p.2.foldl (fun a (t, ss) => appendTrace a t ss) acc) []
      let badPath := traces.filter fun (_, tr) => !validTrace s.graph tr
      let badReject := parsed.any fun p => p.1 == "err" && !p.2.isEmpty
      let persisted := (dump.splitOn ",").filterMap fun kv =>
        match kv.splitOn "=" with | [k, v] => some (k, v) | _ => none
      let badPersist := persisted.filter fun (t, v) =>
        match traces.find? (·.1 == t) with
        | some (_, tr) => tr.getLast? != some v
        | none => v != "-"
      if !badPath.isEmpty then
        "PATH-VIOLATION " ++ " ".intercalate (badPath.map fun (t, tr) => s!"{t}:{",".intercalate tr}")
      else if badReject then "REJECTED-MESSAGE-ANNOUNCED-STATES"
      else if !badPersist.isEmpty then
        "PERSISTED-NOT-LAST-ANNOUNCED " ++ " ".intercalate (badPersist.map fun (t, v) => s!"{t}={v}")
      else implOut
  | _ => "bad-input"

/-- overlap as OBSERVED on the implementation's own outcome line (used for histories with a transport fault, where the
    engine model makes no prediction): a message of thread t is accepted while an action event raised earlier for t is
    still undecided. `und` = threads of the undecided events, oldest first. -/
def raisedOf (o : String) : Nat :=
  match (o.splitOn " ").find? (fun w => w.startsWith "A" && (w.drop 1).toString.toNat?.isSome) with
  | some w => (w.drop 1).toString.toNat?.getD 0
  | none => 0

def overlapsObserved : List String → List String → List String → Bool
  | und, op :: ops, out :: outs =>
    let base := (out.splitOn " ").headD ""
    match op.splitOn " " with
    | [k, t, _] =>
      if k == "in" || k == "out" then
        let accepted := base == "ok" || base == "okflt" || base == "flt"
        (accepted && und.contains t) || overlapsObserved (und ++ List.replicate (raisedOf out) t) ops outs
      else if k == "cont" then
        overlapsObserved (und.eraseIdx (t.toNat?.getD und.length)) ops outs
      else overlapsObserved und ops outs
    | ["stop", i] => overlapsObserved (und.eraseIdx (i.toNat?.getD und.length)) ops outs
    | ["oob", t] =>
      -- the out-of-band event is turned into an inbound ack of thread t
      ((base == "ok" || base == "okflt" || base == "flt") && und.contains t) || overlapsObserved und ops outs
    | _ => overlapsObserved und ops outs
  | _, _, _ => false

def tags (input : String) (impl : String := "") : String :=
  if isConnProto input then (if announcedOutOfOrder input impl then "C09-F4" else "") else
  if input.startsWith "in1|" then
    -- introduce executes parked callbacks without re-checking the thread (as issue-credential does): open finding C09-F2
    (match input.splitOn "|" with
     | [_, opsS] => if overlapsObserved [] ((opsS.splitOn ";").filter (· != "")) (impl.splitOn "|") then "C09-F2" else ""
     | _ => "") else
  match input.splitOn "|" with
  | [proto, opsS] =>
    match setup proto with
    | none => ""
    | some s =>
      if hasFault opsS then
        (if !s.P.recheck && overlapsObserved [] ((opsS.splitOn ";").filter (· != "")) (impl.splitOn "|") then "C09-F2" else "")
      else
      match (noFaultOps opsS).mapM (parseOp s) with
      | none => ""
      | some ops => if !s.P.recheck && overlaps s.P init ops then "C09-F2" else ""
  | _ => ""

end C09.Drv
