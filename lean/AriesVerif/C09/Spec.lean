/-! # C09 — Spec: the published state graphs of the five protocols, on the framework's state names.

Aries RFC 0023 (DID Exchange), 0160 (Connection), 0453 (Issue Credential 2.0/3.0), 0454 (Present Proof 2.0/3.0),
0028 (Introduce). Each graph is the union of the two role graphs plus the abandon edges; `roleA` / `roleB` partition the
non-shared states so that "a thread never changes role" can be stated. -/
namespace C09

structure Graph where
  start : String
  edges : List (String × String)
  terminal : List String
  roleA : List String
  roleB : List String

def edge (g : Graph) (a b : String) : Bool := g.edges.contains (a, b)

/-- the announced sequence of a thread is a path of the graph starting in the start state -/
def isPathFrom (g : Graph) : String → List String → Bool
  | _, [] => true
  | a, b :: rest => edge g a b && isPathFrom g b rest

def validTrace (g : Graph) (tr : List String) : Bool := isPathFrom g g.start tr

def didexchange : Graph :=
  { start := "null",
    edges := [("null", "invited"), ("null", "requested"), ("invited", "requested"), ("requested", "responded"),
              ("responded", "completed"),
              ("null", "abandoned"), ("invited", "abandoned"), ("requested", "abandoned"), ("responded", "abandoned")],
    terminal := ["completed", "abandoned"], roleA := [], roleB := ["invited"] }

def legacyconnection : Graph :=
  { start := "null",
    edges := [("null", "invited"), ("null", "requested"), ("invited", "requested"), ("requested", "responded"),
              ("responded", "completed")],
    terminal := ["completed"], roleA := [], roleB := ["invited"] }

def issuecredential : Graph :=
  { start := "start",
    edges := [ -- issuer
              ("start", "proposal-received"), ("start", "offer-sent"), ("start", "request-received"),
              ("proposal-received", "offer-sent"), ("offer-sent", "proposal-received"), ("offer-sent", "request-received"),
              ("request-received", "credential-issued"), ("credential-issued", "done"),
              -- holder
              ("start", "proposal-sent"), ("start", "offer-received"), ("start", "request-sent"),
              ("proposal-sent", "offer-received"), ("offer-received", "proposal-sent"), ("offer-received", "request-sent"),
              ("request-sent", "credential-received"), ("credential-received", "done"),
              -- abandon (a declined first message abandons from `start`)
              ("start", "abandoning"),
              ("proposal-received", "abandoning"), ("offer-sent", "abandoning"), ("request-received", "abandoning"),
              ("credential-issued", "abandoning"), ("proposal-sent", "abandoning"), ("offer-received", "abandoning"),
              ("request-sent", "abandoning"), ("credential-received", "abandoning"), ("abandoning", "done")],
    terminal := ["done"],
    roleA := ["proposal-received", "offer-sent", "request-received", "credential-issued"],
    roleB := ["proposal-sent", "offer-received", "request-sent", "credential-received"] }

def presentproof : Graph :=
  { start := "start",
    edges := [ -- verifier
              ("start", "request-sent"), ("start", "proposal-received"), ("proposal-received", "request-sent"),
              ("request-sent", "proposal-received"), ("request-sent", "presentation-received"),
              ("presentation-received", "done"),
              -- prover
              ("start", "request-received"), ("start", "proposal-sent"), ("proposal-sent", "request-received"),
              ("request-received", "proposal-sent"), ("request-received", "presentation-sent"),
              ("presentation-sent", "done"),
              -- abandon (a declined first message abandons from `start`)
              ("start", "abandoned"),
              ("request-sent", "abandoned"), ("proposal-received", "abandoned"), ("presentation-received", "abandoned"),
              ("request-received", "abandoned"), ("proposal-sent", "abandoned"), ("presentation-sent", "abandoned")],
    terminal := ["done", "abandoned"],
    roleA := ["request-sent", "proposal-received", "presentation-received"],
    roleB := ["request-received", "proposal-sent", "presentation-sent"] }

def introduce : Graph :=
  { start := "start",
    edges := [ -- introducer
              ("start", "arranging"), ("arranging", "arranging"), ("arranging", "delivering"), ("arranging", "done"),
              ("delivering", "confirming"), ("delivering", "done"), ("confirming", "done"),
              -- introducee
              ("start", "deciding"), ("start", "requesting"), ("requesting", "deciding"), ("requesting", "done"),
              ("deciding", "waiting"), ("deciding", "done"), ("waiting", "done"),
              -- abandon
              ("start", "abandoning"), ("arranging", "abandoning"), ("delivering", "abandoning"),
              ("confirming", "abandoning"), ("requesting", "abandoning"), ("deciding", "abandoning"),
              ("waiting", "abandoning"), ("abandoning", "done")],
    terminal := ["done"],
    roleA := ["arranging", "delivering", "confirming"],
    roleB := ["requesting", "deciding", "waiting"] }

/-! ## obligations a transition table (as regenerated from the code) must meet -/

/-- every transition the code allows is an edge of the published graph -/
def tableWithin (g : Graph) (can : List (String × String)) : Bool := can.all fun e => g.edges.contains e
/-- terminal states are never left -/
def terminalAbsorbing (g : Graph) (can : List (String × String)) : Bool :=
  can.all fun e => !g.terminal.contains e.1
/-- a thread never changes role -/
def noRoleSwitch (g : Graph) (can : List (String × String)) : Bool :=
  can.all fun e => !(g.roleA.contains e.1 && g.roleB.contains e.2) && !(g.roleB.contains e.1 && g.roleA.contains e.2)
/-- every message type leads to a declared state (or is not recognised at all) -/
def targetsDeclared (states : List String) (target : List (String × Bool × String)) : Bool :=
  target.all fun t => t.2.2 == "" || states.contains t.2.2

/-- the published graph itself has absorbing terminal states and no role switch -/
def Graph.wellFormed (g : Graph) : Bool := terminalAbsorbing g g.edges && noRoleSwitch g g.edges

end C09
