import AriesVerif.C07.Model
/-! # C07 — strict validation: `ld/validator/validate.go` line by line (`mapsHaveSameStructure`, `compactMap`,
`compactSlice`, `compactValue`, and — after the repair of C07-F1 — `valuesHaveSameStructure`).

JSON-LD compaction itself (json-gold) is a parameter; the law it is used for is `dropUndef`: members whose name is no
term of the context disappear, at every depth. `reflect.DeepEqual` is equality of rendered values with sorted members.
Every function takes fuel (depth bound). -/
namespace Ldp.Strict

open Base

def insertKey (x : String × String) : List (String × String) → List (String × String)
  | [] => [x]
  | y :: ys => if x.1 < y.1 then x :: y :: ys else y :: insertKey x ys

/-- structural equality up to member order -/
def canonR : Nat → J → String
  | 0, j => scalarR j
  | f + 1, .obj kvs =>
      "{" ++ ",".intercalate (((kvs.map fun (k, v) => (k, canonR f v)).foldr insertKey []).map fun (k, v) => k ++ ":" ++ v) ++ "}"
  | f + 1, .arr l => "[" ++ ",".intercalate (l.map (canonR f)) ++ "]"
  | _, j => scalarR j

def deepEqual (a b : J) : Bool := canonR 32 a == canonR 32 b

/-- `compactValue`: a one-element array is its element, an object with only `id` is that id -/
def compactValue : Nat → J → J
  | 0, v => v
  | f + 1, .arr [x] => compactValue f x
  | _ + 1, .obj [("id", v)] => v
  | _, v => v

mutual
/-- `compactMap` -/
def compactMap : Nat → List (String × J) → List (String × J)
  | 0, m => m
  | f + 1, m => (m.filter (·.1 != "@context")).map fun (k, v) =>
      (k, match compactValue (f + 1) v with
          | .arr l => .arr (compactSlice f l)
          | .obj kvs => .obj (compactMap f kvs)
          | x => x)
/-- `compactSlice` -/
def compactSlice : Nat → List J → List J
  | 0, s => s
  | f + 1, s => s.map fun x =>
      match compactValue (f + 1) x with
      | .obj kvs => .obj (compactMap f kvs)
      | y => y
end

mutual
/-- `mapsHaveSameStructure` (repaired) -/
def mapsSame : Nat → List (String × J) → List (String × J) → Bool
  | 0, _, _ => true
  | f + 1, o, c =>
    let original := compactMap 32 o
    let compacted := compactMap 32 c
    if deepEqual (.obj original) (.obj compacted) then true
    else if original.length != compacted.length then false
    else original.all fun (k, v1) =>
      match compacted.find? (·.1 == k) with
      | none => true                       -- "the name of the map was mapped"
      | some (_, v2) => valuesSame f v1 v2
/-- `valuesHaveSameStructure` -/
def valuesSame : Nat → J → J → Bool
  | 0, _, _ => true
  | f + 1, .obj m1, .obj m2 => mapsSame f m1 m2
  | _ + 1, .obj _, _ => false
  | f + 1, .arr l1, .arr l2 => l1.length == l2.length && (l1.zip l2).all fun (a, b) => valuesSame f a b
  | _ + 1, .arr _, _ => false
  | _, _, _ => true
end

/-- the loop of `mapsHaveSameStructure` BEFORE the repair: only object-valued members were descended into -/
def mapsSameOld : Nat → List (String × J) → List (String × J) → Bool
  | 0, _, _ => true
  | f + 1, o, c =>
    let original := compactMap 32 o
    let compacted := compactMap 32 c
    if deepEqual (.obj original) (.obj compacted) then true
    else if original.length != compacted.length then false
    else original.all fun (k, v1) =>
      match v1 with
      | .obj m1 =>
        (match compacted.find? (·.1 == k) with
         | none => true
         | some (_, .obj m2) => mapsSameOld f m1 m2
         | some _ => false)
      | _ => true                          -- arrays (and scalars) were skipped

/-- the law compaction is used for: undefined members are dropped at every depth -/
def dropUndef (d : String → Bool) : Nat → J → J
  | 0, j => j
  | f + 1, .obj kvs => .obj ((kvs.filter fun (k, _) => k == "@context" || d k).map fun (k, v) =>
      (k, if k == "@context" then v else dropUndef d f v))
  | f + 1, .arr l => .arr (l.map (dropUndef d f))
  | _, j => j

/-- strict validation of a document -/
def strictOk (d : String → Bool) (doc : J) : Bool :=
  match doc, dropUndef d 32 doc with
  | .obj o, .obj c => mapsSame 32 o c
  | _, _ => true

def strictOkOld (d : String → Bool) (doc : J) : Bool :=
  match doc, dropUndef d 32 doc with
  | .obj o, .obj c => mapsSameOld 32 o c
  | _, _ => true

end Ldp.Strict
