import AriesVerif.C07.Strict
/-! # C07 — property theorems (partial: JSON-LD expansion and URDNA2015 are replaced by the `claims` reading). -/
namespace Ldp

open Base

theorem sameSet_refl (a : List Claim) : sameSet a a = true := by
  simp [sameSet, List.all_eq_true]

theorem sameSet_symm (a b : List Claim) : sameSet a b = sameSet b a := by
  simp [sameSet, Bool.and_comm]

/-- the statements do not depend on the order of the members of a set -/
theorem sameSet_append_comm (a b : List Claim) : sameSet (a ++ b) (b ++ a) = true := by
  simp only [sameSet, List.all_eq_true, Bool.and_eq_true, List.contains_eq_mem, decide_eq_true_eq, List.mem_append]
  exact ⟨fun x hx => hx.symm, fun x hx => hx.symm⟩

/-- nor on repetitions -/
theorem sameSet_dup (a : List Claim) (x : Claim) (hx : x ∈ a) : sameSet (a ++ [x]) a = true := by
  simp only [sameSet, List.all_eq_true, Bool.and_eq_true, List.contains_eq_mem, decide_eq_true_eq, List.mem_append,
    List.mem_singleton]
  exact ⟨fun y hy => hy.elim id (fun e => e ▸ hx), fun y hy => Or.inl hy⟩

def isScalar : J → Bool
  | .arr _ => false
  | .obj _ => false
  | _ => true

theorem claimsOf_scalar (d : String → Bool) (fuel : Nat) (n path k : String) (x : J) (hx : isScalar x = true) :
    claimsOf d (fuel + 1) n path k x = [⟨n, k, scalarR x⟩] := by
  cases x <;> simp_all [claimsOf, isScalar]

theorem claimsOf_arr (d : String → Bool) (fuel : Nat) (n path k : String) (l : List J) :
    claimsOf d (fuel + 1) n path k (.arr l) =
      l.zipIdx.flatMap fun (x, i) => claimsOf d fuel n (path ++ "#" ++ toString i) k x := by
  rw [claimsOf]

theorem claimsOf_scalars (d : String → Bool) (fuel : Nat) (n path k : String) (l : List J) (hl : ∀ x ∈ l, isScalar x = true) :
    ∀ c, c ∈ claimsOf d (fuel + 2) n path k (.arr l) ↔ ∃ x ∈ l, c = ⟨n, k, scalarR x⟩ := by
  intro c
  rw [claimsOf_arr, List.mem_flatMap]
  constructor
  · rintro ⟨⟨x, i⟩, hxi, hc⟩
    have hx : x ∈ l := by
      have h := (List.mem_zipIdx_iff_getElem?.mp hxi)
      exact List.mem_of_getElem? h
    simp only at hc
    rw [claimsOf_scalar d fuel n _ k x (hl x hx)] at hc
    exact ⟨x, hx, by simpa using hc⟩
  · rintro ⟨x, hx, rfl⟩
    obtain ⟨i, hi, rfl⟩ := List.getElem_of_mem hx
    refine ⟨(l[i], i), ?_, ?_⟩
    · exact List.mem_zipIdx_iff_getElem?.mpr (by simp [hi])
    · simp only
      rw [claimsOf_scalar d fuel n _ k _ (hl _ (List.getElem_mem _))]; simp

/-- reordering (or repeating) the values of a set-valued term changes no statement -/
theorem C07_array_order (d : String → Bool) (fuel : Nat) (n path k : String) (l1 l2 : List J)
    (h1 : ∀ x ∈ l1, isScalar x = true) (h2 : ∀ x ∈ l2, isScalar x = true) (hsame : ∀ x, x ∈ l1 ↔ x ∈ l2) :
    sameSet (claimsOf d (fuel + 2) n path k (.arr l1)) (claimsOf d (fuel + 2) n path k (.arr l2)) = true := by
  simp only [sameSet, List.all_eq_true, Bool.and_eq_true, List.contains_eq_mem, decide_eq_true_eq]
  constructor
  · intro c hc
    obtain ⟨x, hx, rfl⟩ := (claimsOf_scalars d fuel n path k l1 h1 c).mp hc
    exact (claimsOf_scalars d fuel n path k l2 h2 _).mpr ⟨x, (hsame x).mp hx, rfl⟩
  · intro c hc
    obtain ⟨x, hx, rfl⟩ := (claimsOf_scalars d fuel n path k l2 h2 c).mp hc
    exact (claimsOf_scalars d fuel n path k l1 h1 _).mpr ⟨x, (hsame x).mpr hx, rfl⟩

/-- **what the signature does not cover**: an undefined member (no `id`) added to the credential changes no statement,
    at the top level … -/
theorem C07_undefined_invisible_top (d : String → Bool) (kvs : List (String × J)) (u : String) (v : J) (hu : d u = false)
    (hid : u ≠ "id") :
    docClaims d (.obj (kvs ++ [(u, v)])) = docClaims d (.obj kvs) := by
  have hfind : (kvs ++ [(u, v)]).find? (·.1 == "id") = kvs.find? (·.1 == "id") := by
    rw [List.find?_append]
    cases kvs.find? (·.1 == "id") with
    | some x => rfl
    | none => simp [hid]
  simp only [docClaims, nodeName, hfind, List.flatMap_append, List.flatMap_cons, List.flatMap_nil, List.append_nil]
  simp [hu]

/-- … hence default verification accepts the credential with the extra member, and only strict validation refuses it:
    this is the contract the property states, as a theorem about the model -/
theorem C07_strict_needed (orig : J) (kvs : List (String × J)) (u : String) (v : J)
    (hu : definedFor (.obj kvs) u = false)
    (hid : u ≠ "id") (hp : u ≠ "proof") (hc : u ≠ "@context") (ho : orig = .obj kvs)
    (hproof : (member orig "proof").isSome) :
    expectedClaims orig (.obj (kvs ++ [(u, v)])) = ("acc", "rej") := by
  subst ho
  have hget : ∀ k, k ≠ u → member (.obj (kvs ++ [(u, v)])) k = member (.obj kvs) k := by
    intro k hk
    simp only [member, J.get?, List.find?_append]
    cases h : kvs.find? (·.1 == k) with
    | some x => rfl
    | none => simp [Ne.symm hk]
  have hd : definedFor (.obj (kvs ++ [(u, v)])) = definedFor (.obj kvs) := by
    unfold definedFor
    have := hget "@context" (Ne.symm hc)
    simp only [member] at this
    rw [this]
  have hcl : ctxList (.obj (kvs ++ [(u, v)])) = ctxList (.obj kvs) := by
    unfold ctxList; rw [hget "@context" (Ne.symm hc)]
  have hcs : ∀ p, ctxSame p (.obj kvs) (.obj (kvs ++ [(u, v)])) = true := by
    intro p; unfold ctxSame; rw [hcl, hget "@context" (Ne.symm hc)]; split <;> simp
  unfold expectedClaims
  rw [hget "proof" (Ne.symm hp), hd]
  cases hpm : member (.obj kvs) "proof" with
  | none => simp [hpm] at hproof
  | some p =>
    simp only [Option.map_some, beq_self_eq_true, Bool.true_and, hcs]
    rw [C07_undefined_invisible_top _ kvs u v hu hid, sameSet_refl]
    have hund : hasUndefined (definedFor (.obj kvs)) 16 (.obj (kvs ++ [(u, v)])) = true := by
      simp only [hasUndefined, List.any_append, List.any_cons, List.any_nil, Bool.or_false, Bool.or_eq_true]
      right
      simp [hu, hp, hc]
    simp [hund]

/-- an altered, removed or added DEFINED statement is refused -/
theorem C07_claims_differ_rejected (orig mutated : J)
    (h : sameSet (docClaims (definedFor mutated) orig) (docClaims (definedFor mutated) mutated) = false) :
    expectedClaims orig mutated = ("rej", "rej") ∨ expectedClaims orig mutated = ("noproof", "noproof") := by
  unfold expectedClaims
  cases member mutated "proof" with
  | none => right; rfl
  | some p => left; simp [h]

/-- any change of the proof (created, verificationMethod, proofPurpose, domain, challenge, the signature value) is refused -/
theorem C07_proof_options_covered (orig mutated p : J) (hm : member mutated "proof" = some p)
    (h : ((member orig "proof").map J.render == some (J.render p)) = false) :
    expectedClaims orig mutated = ("rej", "rej") := by
  unfold expectedClaims
  simp [hm, h]

/-- with the `proofValue` representation the context list itself is covered: any change of it is refused -/
theorem C07_context_list_covered (orig mutated p : J) (hm : member mutated "proof" = some p)
    (hrepr : detachedJws p = false)
    (h : ((member orig "@context").map J.render == (member mutated "@context").map J.render) = false) :
    expectedClaims orig mutated = ("rej", "rej") := by
  unfold expectedClaims
  simp [hm, ctxSame, hrepr, h]

/-- with the detached-JWS representation a context that defines only proof vocabulary can go without changing a signed
    statement: default verification still accepts, strict validation does not (the refinement the thorough tier forced
    on the model: the signature covers statements, not the context list as text) -/
theorem C07_detached_proof_context (orig mutated p : J) (hm : member mutated "proof" = some p)
    (hproof : ((member orig "proof").map J.render == some (J.render p)) = true)
    (hctx : ctxSame p orig mutated = true) (hlost : lostProofCtx orig mutated = true)
    (hcl : sameSet (docClaims (definedFor mutated) orig) (docClaims (definedFor mutated) mutated) = true) :
    expectedClaims orig mutated = ("acc", "rej") := by
  unfold expectedClaims
  simp [hm, hproof, hctx, hlost, hcl]

/-- without a proof nothing is "verified" -/
theorem C07_no_proof (orig mutated : J) (hm : member mutated "proof" = none) :
    expectedClaims orig mutated = ("noproof", "noproof") := by
  unfold expectedClaims; simp [hm]

/-- the claims-level theorems above are about `expectedClaims`; they transfer verbatim to the verdict the driver compares
    with the code for every document without two members matching one known member … -/
theorem expected_of_no_case_variant (orig mutated : J) (h : hasCaseVariant mutated = false) :
    expected orig mutated = expectedClaims orig mutated := by
  unfold expected; simp [h]

/-- … and a document WITH such a pair ("Issuer" next to "issuer") is refused whatever it says (C07-F3: before the repair
    it verified and the Go value reported the other issuer) -/
theorem C07_case_variant_refused (orig mutated : J) (h : hasCaseVariant mutated = true) :
    expected orig mutated = ("rej", "rej") := by
  unfold expected; simp [h]

example : hasCaseVariant (.obj [("issuer", .str "did:a"), ("Issuer", .str "did:b")]) = true := by decide
example : hasCaseVariant (.obj [("issuer", .str "did:a"), ("name", .str "x")]) = false := by decide

namespace Strict

def person (extra : List (String × J)) : J := .obj ([("name", .str "Bob")] ++ extra)

/-- the document of C07-F1: two nodes in an array, one of them with an undefined member -/
def f1Doc : J := .obj [("id", .str "urn:x"), ("knows", .arr [person [], person [("undefinedTerm", .str "added")]])]

/-- **C07-F1 as a theorem about the code before the repair**: strict validation accepted it … -/
theorem C07_F1_old_accepts : strictOkOld defined f1Doc = true ∧ hasUndefined defined 16 f1Doc = true := by decide

/-- … and the repaired comparison refuses it, also for one-element arrays and nested objects -/
theorem C07_F1_now_rejects : strictOk defined f1Doc = false := by decide

example : strictOk defined (.obj [("id", .str "urn:x"), ("knows", .arr [person [("undefinedTerm", .num 1)]])]) = false := by decide
example : strictOk defined (.obj [("id", .str "urn:x"), ("degree", .obj [("college", .str "MIT"), ("undefinedTerm", .num 1)])]) = false := by
  decide
example : strictOk defined (.obj [("id", .str "urn:x"), ("knows", .arr [person [], person []]), ("tags", .arr [.str "x", .str "y"])]) = true := by
  decide

end Strict
end Ldp
