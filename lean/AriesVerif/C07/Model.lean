import AriesVerif.Base.Json
/-! # C07 — Model: what a Linked-Data proof covers.

`claims` is the JSON-LD reading of the generated fragment: a document is a set of statements
`(node, term, value)`; arrays are sets (order and repetition do not matter, no `@list` container is generated), a nested
object is a node named by its `id` or, when it has none, by the path of terms and array positions that leads to it
(blank node); members whose
name is not a term of the active contexts are DROPPED (this is what expansion does, and why strict validation exists).
The digest that is signed is `hash(claims(proof options)) ‖ hash(claims(document without proof))` (`ld/proof/data.go`). -/
namespace Ldp

open Base

/-- terms of https://www.w3.org/2018/credentials/v1 that the generator uses -/
def baseTerms : List String :=
  ["@context", "id", "type", "credentialSubject", "issuer", "issuanceDate", "expirationDate", "proof"]

/-- terms of the custom context https://verif.example/ctx/v1 -/
def customTerms : List String :=
  ["name", "nick", "score", "tags", "degree", "college", "level", "knows", "since", "extra", "homepage"]

def definedTerms : List String := baseTerms ++ customTerms

/-- all terms (custom context active) -/
def defined (k : String) : Bool := definedTerms.contains k

/-- only the base context is active -/
def definedBase (k : String) : Bool := baseTerms.contains k

/-- the active contexts decide what is a term: the custom terms exist only when the custom context is listed -/
def definedFor (doc : J) : String → Bool :=
  match doc.get? "@context" with
  | some (.arr l) => if l.any (fun c => match c with | .str u => u == "https://verif.example/ctx/v1" | _ => false) then defined else definedBase
  | _ => definedBase

structure Claim where
  node : String
  term : String
  value : String
deriving DecidableEq, Repr

/-- rendering of a scalar (total, so that the kernel can evaluate the model) -/
def scalarR : J → String
  | .null => "null"
  | .bool b => if b then "true" else "false"
  | .num n => toString n
  | .lit s => s
  | .str s => "\"" ++ s ++ "\""
  | .arr _ => "[…]"
  | .obj _ => "{…}"

def nodeName (path : String) (kvs : List (String × J)) : String :=
  match kvs.find? (·.1 == "id") with
  | some (_, .str s) => s
  | _ => "_:" ++ path

/-- statements of a value `v` of term `k` under node `n`; `fuel` bounds the depth -/
def claimsOf (d : String → Bool) : Nat → String → String → String → J → List Claim
  | 0, _, _, _, _ => []
  | fuel + 1, n, path, k, v =>
    match v with
    | .arr l => l.zipIdx.flatMap fun (x, i) => claimsOf d fuel n (path ++ "#" ++ toString i) k x   -- blank nodes of an array are distinct
    | .obj kvs =>
      let p := path ++ "/" ++ k
      let m := nodeName p kvs
      ⟨n, k, m⟩ :: kvs.flatMap fun (k', v') =>
        if k' == "id" || k' == "@context" || !d k' then [] else claimsOf d fuel m p k' v'
    | x => [⟨n, k, scalarR x⟩]

/-- the statements of a credential (its `proof` member is not part of them) -/
def docClaims (d : String → Bool) (j : J) : List Claim :=
  match j with
  | .obj kvs =>
    let root := nodeName "" kvs
    kvs.flatMap fun (k, v) =>
      if k == "id" || k == "@context" || k == "proof" || !d k then [] else claimsOf d 16 root "" k v
  | _ => []

def sameSet (a b : List Claim) : Bool := a.all (b.contains ·) && b.all (a.contains ·)

def member (j : J) (k : String) : Option J := j.get? k

/-- an undefined member anywhere (objects and arrays, every depth); `@context` values and the proof are not looked at -/
def hasUndefined (d : String → Bool) : Nat → J → Bool
  | 0, _ => false
  | fuel + 1, .obj kvs => kvs.any fun (k, v) =>
      k != "@context" && k != "proof" && (!d k || hasUndefined d fuel v)
  | fuel + 1, .arr l => l.any (hasUndefined d fuel)
  | _, _ => false

/-! ### what a proof covers of the `@context` member

A Linked-Data signature covers the STATEMENTS the contexts produce, not the context list as text. With the `proofValue`
representation the document's context list is also copied into the proof options that are signed, so every change of
the list is refused. With the detached-JWS representation the proof options carry a fixed security context: a context
that defines only proof vocabulary (the suites' own contexts) and no term of the claims can be removed without changing
any signed statement, and the credential still verifies (observed on the real code; default validation only — strict
validation then finds the proof's own terms undefined). -/

def proofOnlyCtx : List String :=
  ["https://w3id.org/security/suites/jws-2020/v1", "https://w3id.org/security/suites/ed25519-2020/v1",
   "https://w3id.org/security/bbs/v1"]

def ctxList (doc : J) : List J :=
  match member doc "@context" with
  | some (.arr l) => l
  | some x => [x]
  | none => []

def isProofOnly : J → Bool
  | .str u => proofOnlyCtx.contains u
  | _ => false

def detachedJws (p : J) : Bool := (member p "jws").isSome && (member p "proofValue").isNone

def ctxSame (p orig mutated : J) : Bool :=
  if detachedJws p then
    ((ctxList orig).filter (!isProofOnly ·)).map J.render == ((ctxList mutated).filter (!isProofOnly ·)).map J.render
  else (member orig "@context").map J.render == (member mutated "@context").map J.render

/-- a proof-vocabulary context of the signed document is missing from the presented one -/
def lostProofCtx (orig mutated : J) : Bool :=
  (ctxList orig).any fun c => isProofOnly c && !((ctxList mutated).map J.render).contains (J.render c)

/-- members of the credential that the Go value knows by name (`rawCredential`) -/
def knownMembers : List String :=
  ["@context", "id", "type", "credentialSubject", "issuanceDate", "expirationDate", "proof", "credentialStatus",
   "issuer", "credentialSchema", "evidence", "termsOfUse", "refreshService", "jwt", "_sd_alg"]

/-- the folding `encoding/json` matches member names with (Unicode simple folding restricted to what can meet an ASCII
    letter: the long s U+017F folds to `s`, the Kelvin sign U+212A to `k`) -/
def lowerAscii (s : String) : String :=
  String.ofList (s.toList.map fun c => if c == 'ſ' then 's' else if c == 'K' then 'k' else c.toLower)

/-- two top-level members that match the same known member up to case ("Issuer" next to "issuer"): `encoding/json` would
    decode the last one INTO the known member; the decoder refuses such a document as ambiguous (repair of C07-F3). A lone
    variant is still decoded into the known member (an existing test relies on it: open finding C16-F2). -/
def hasCaseVariant (j : J) : Bool :=
  match j with
  | .obj kvs => knownMembers.any fun n => (kvs.filter fun (k, _) => lowerAscii k == lowerAscii n).length > 1
  | _ => false

/-- (default validation, strict validation) outcome of verifying `mutated`, a document derived from the signed `orig` -/
def expectedClaims (orig mutated : J) : String × String :=
  match member mutated "proof" with
  | none => ("noproof", "noproof")
  | some p =>
    let sameProof := (member orig "proof").map J.render == some (J.render p)
    let sameCtx := ctxSame p orig mutated
    let d := definedFor mutated
    let ok := sameProof && sameCtx && sameSet (docClaims d orig) (docClaims d mutated)
    if !ok then ("rej", "rej")
    else ("acc", if hasUndefined d 16 mutated || lostProofCtx orig mutated then "rej" else "acc")

/-- the verdict of the code: a document with a case variant of a known member is refused by the decoder before anything
    is verified; otherwise the claims-level verdict -/
def expected (orig mutated : J) : String × String :=
  if hasCaseVariant mutated then ("rej", "rej") else expectedClaims orig mutated

end Ldp
