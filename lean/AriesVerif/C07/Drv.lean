import AriesVerif.C07.Strict
import AriesVerif.Base.Util
/-! C07 driver glue (format of harness/cmd/corr/c07.go). -/
namespace Ldp.Drv
open Ldp Base Util

def withoutProof : J → J
  | .obj kvs => .obj (kvs.filter (·.1 != "proof"))
  | x => x

/-- JWT forms (harness/cmd/corr/c07jwt.go): the token is the signed TEXT; any other text is another token. An unsecured JWT
    around a presentation with a linked data proof is verified by that proof: what comes back as verified (holder, id) is
    what the proof covers. -/
def judgeJWT (impl : String) : String × String × String :=
  let words := impl.splitOn " "
  let get (k : String) : String := ((words.find? (·.startsWith (k ++ "="))).map fun w => (w.drop (k.length + 1)).toString).getD "?"
  if get "sign" != "ok" then ("model: sign=ok (" ++ impl ++ ")", "=", "")
  else if get "base" != "acc" then ("model: base=acc", "SIGNED-TOKEN-DOES-NOT-VERIFY", "")
  else if get "applied" == "0" then
    (if get "res" == "acc" then ("=", "=", "") else ("model: res=acc", "SIGNED-TOKEN-DOES-NOT-VERIFY", ""))
  else if get "res" != "acc" then ("=", "=", "")
  else if get "holder" == "same" && get "id" == "same" then ("model: res=rej", "=", "")
  else ("model: res=rej", "ALTERED-TOKEN-ACCEPTED", "")

def judge (input impl : String) : String × String × String :=
  if input.startsWith "jwt|" then judgeJWT impl else
  match impl.splitOn "|" with
  | [head, origS, mutS] =>
    let words := head.splitOn " "
    let get (k : String) : String := ((words.find? (·.startsWith (k ++ "="))).map fun w => (w.drop (k.length + 1)).toString).getD "?"
    if ((input.splitOn "|").getLast?.getD "").startsWith "addbn" then
      -- a claim added under a term that an appended inline context maps to a blank node identifier: the statement never
      -- reaches the RDF dataset, so no signature covers it. Strict validation must refuse it (repair C07-F4, strict half);
      -- the default validation carries it through (open finding C07-F4)
      let words := head.splitOn " "
      let get (k : String) : String := ((words.find? (·.startsWith (k ++ "="))).map fun w => (w.drop (k.length + 1)).toString).getD "?"
      if get "base" != "acc" then ("=", "SIGNED-DOCUMENT-DOES-NOT-VERIFY", "")
      else if get "strict" != "rej" then ("=", "STRICT-VALIDATION-CARRIES-AN-UNSIGNED-CLAIM-UNDER-A-BLANK-NODE-TERM", "")
      else if get "res" != "rej" then ("=", "a claim added under a term mapped to a blank node verifies under the default validation", "C07-F4")
      else ("=", "=", "")
    else
    match J.parse origS, J.parse mutS with
    | some o, some m =>
      let (r, s) := expected o m
      -- the line-by-line validator model must agree with the claims-level reading of "has an undefined member"
      let s2 := if r == "acc" && !lostProofCtx o m then (if Strict.strictOk (definedFor m) (withoutProof m) then "acc" else "rej") else s
      -- `addcase` mutations report what the accepted credential says about its signed members
      let view := get "view"
      let line := s!"sign=ok base=acc res={r} strict={s} applied={get "applied"}" ++ (if view == "?" then "" else " view=-")
      let modelCol := if s2 != s then s!"validator model says strict={s2}, claims model strict={s}"
        else if line == head then "=" else line
      -- the contract: the base document verifies; the outcome is what the statements and the proof dictate
      let spec := if get "base" != "acc" then "SIGNED-DOCUMENT-DOES-NOT-VERIFY"
        else if get "res" == "acc" && view == "changed" then "VERIFIED-CREDENTIAL-REPORTS-OTHER-SIGNED-MEMBERS-THAN-THE-SIGNED-DOCUMENT"
        else if get "res" != r then s!"contract demands res={r}"
        else if get "strict" != s then s!"contract demands strict={s}"
        else "="
      (modelCol, spec, "")
    | _, _ => ("unparsable JSON", "=", "")
  | _ => (if input.isEmpty then "bad-input" else "model: sign=ok (" ++ impl ++ ")", "=", "")

end Ldp.Drv
