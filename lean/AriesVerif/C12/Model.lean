/-! # C12 — Model: symbolic terms handed to an untrusted storage provider, and the EDV formatter.

Atoms are application plaintexts (keys, values, tag names, tag values). `Opaque t`: no plaintext atom occurs in `t`
outside a `mac` / `aead` constructor (ideal MAC and JWE). -/
namespace Sym

inductive Term
  | atom (a : String)                          -- plaintext
  | pub (s : String)                           -- public constant (JSON member names, empty string, store names)
  | rnd (n : Nat)                              -- fresh randomness
  | mac (key : Nat) (t : Term)                 -- HMAC under a secret key
  | aead (key : Nat) (nonce : Nat) (t : Term)  -- JWE under a secret key with fresh CEK / IV
  | b64 (t : Term) | b58 (t : Term) | trunc (n : Nat) (t : Term)
  | tuple (ts : List Term)
deriving Repr

mutual
/-- no plaintext atom occurs outside a `mac` / `aead` constructor -/
def Opaque : Term → Bool
  | .atom _ => false
  | .pub _ | .rnd _ => true
  | .mac _ _ | .aead _ _ _ => true
  | .b64 t | .b58 t | .trunc _ t => Opaque t
  | .tuple ts => OpaqueL ts
def OpaqueL : List Term → Bool
  | [] => true
  | t :: ts => Opaque t && OpaqueL ts
end

structure Tag where
  name : String
  value : String

/-- `encryptedformatter.go: formatTag` — an empty tag value stays empty -/
def formatTag (mk : Nat) (t : Tag) : Term :=
  .tuple [.b64 (.mac mk (.atom t.name)), if t.value = "" then .pub "" else .b64 (.mac mk (.atom t.value))]

/-- `generateDeterministicDocumentID` / `generateRandomDocumentID` -/
def docId (mk : Nat) (det : Bool) (key : String) (fresh : Nat) : Term :=
  if det then .b58 (.trunc 16 (.mac mk (.atom key))) else .b58 (.rnd fresh)

/-- `format`: (document id, encrypted document, formatted tags) — everything the underlying provider is given by a Put -/
def format (mk ek : Nat) (det : Bool) (key value : String) (tags : List Tag) (fresh : Nat) : List Term :=
  let id := docId mk det key fresh
  let ftags := tags.map (formatTag mk)
  let structured := Term.tuple ([.atom key, .atom value] ++ tags.flatMap fun t => [.atom t.name, .atom t.value])
  let doc := Term.tuple [.pub "id", id, .pub "indexed", .tuple ftags, .pub "jwe", .aead ek (fresh + 1) structured]
  [id, doc, .tuple ftags]

/-- `formattedstore` with non-deterministic ids additionally tags every entry with (`Key`, base64(key)) and queries by it -/
def keyTag (mk : Nat) (key : String) : Term :=
  .tuple [.b64 (.mac mk (.pub "Key")), .b64 (.mac mk (.b64 (.atom key)))]

/-- query expression handed down: formatted name, optionally formatted value -/
def formatQuery (mk : Nat) (name : String) (value : Option String) : Term :=
  match value with
  | none => .tuple [.b64 (.mac mk (.atom name))]
  | some v => .tuple [.b64 (.mac mk (.atom name)), .b64 (.mac mk (.atom v))]

/-- `SetStoreConfig`: the tag names to index, formatted -/
def formatConfig (mk : Nat) (names : List String) : Term :=
  .tuple (names.map fun n => .b64 (.mac mk (.atom n)))

/-- the `WithEDVBatchCrypto` path AS WRITTEN returns the caller's tags (outside the property's stated quantifier) -/
def batchFormatTags (tags : List Tag) : List Term := tags.map fun t => .tuple [.atom t.name, .atom t.value]

end Sym
