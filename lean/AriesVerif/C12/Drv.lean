import AriesVerif.C12.Model
import AriesVerif.Base.Util
/-! C12 driver glue: the harness maps every argument of every call on the underlying provider back to a symbolic term
    with its own keys (format of harness/cmd/corr/c12.go); here each term is rebuilt as `Sym.Term` and judged by
    `Opaque`. `raw(..)` — an argument the harness could not explain as MAC / JWE / random — becomes a plaintext atom. -/
namespace Sym.Drv
open Sym Util

/-- one leaf of the canonical grammar -/
def leaf (s : String) : Term :=
  if s == "rnd" then .b58 (.rnd 0)
  else if s == "empty" || s == "nil" || s == "" then .pub ""
  else if s.startsWith "docid(" then .b58 (.trunc 16 (.mac 1 (.atom s)))
  else if s.startsWith "mac(" then .b64 (.mac 1 (.atom s))
  else if s.startsWith "name(" then .pub s
  else if s.startsWith "enc{" then .aead 2 0 (.atom s)
  else .atom s            -- raw(..) and anything unexpected

/-- split a call text into leaves: separators are the structural characters of the canonical grammar -/
def leaves (call : String) : List String :=
  let body := String.ofList ((call.toList.dropWhile (· != '(')).drop 1)
  let body := String.ofList (body.toList.reverse.dropWhile (· == ')') |>.reverse)
  -- protect the parentheses of leaf constructors by splitting on the separators only
  let seps : List Char := [',', ';', '[', ']', ' ', ':']
  let parts := body.toList.splitBy (fun a b => !(seps.contains a) && !(seps.contains b))
  (parts.map String.ofList).filter fun p =>
    p != "" && !(p.toList.all seps.contains) && p != "put" && p != "del" && p != "sortby" && !p.startsWith "doc("
      || p.startsWith "doc("

def termOfCall (call : String) : Term :=
  .tuple ((leaves call).map fun l =>
    -- `doc(ID` loses its closing parts through the split; its id is the remainder
    if l.startsWith "doc(" then leaf (String.ofList (l.toList.drop 4)) else
    leaf (String.ofList (l.toList.reverse.dropWhile (· == ')') |>.reverse) ++
      (if l.startsWith "docid(" || l.startsWith "mac(" || l.startsWith "name(" || l.startsWith "raw(" then ")" else "")))

def judge (impl : String) : String :=
  match impl.splitOn " || scan=" with
  | [callsS, scan] =>
    -- the REST provider against the in-process vault server: judged by the plaintext scan of every request alone
    if callsS.startsWith "REST " then (if scan == "clean" then "=" else "PLAINTEXT-FOUND " ++ scan) else
    let calls := (callsS.splitOn " ; ").filter (· != "")
    let bad := calls.filter fun c => !Opaque (termOfCall c)
    if !bad.isEmpty then "ARGUMENT-NOT-OPAQUE " ++ (bad.headD "")
    else if scan != "clean" then "PLAINTEXT-FOUND " ++ scan
    else "="
  | _ => "bad-output"

end Sym.Drv
