import AriesVerif.C12.Model
/-! # C12 — property theorems -/
namespace Sym

theorem opaqueL_append (a b : List Term) : OpaqueL (a ++ b) = (OpaqueL a && OpaqueL b) := by
  induction a with
  | nil => simp [OpaqueL]
  | cons x xs ih => simp [OpaqueL, ih, Bool.and_assoc]

theorem opaqueL_map_formatTag (mk : Nat) (tags : List Tag) : OpaqueL (tags.map (formatTag mk)) = true := by
  induction tags with
  | nil => rfl
  | cons t ts ih =>
    simp only [List.map, OpaqueL, ih, Bool.and_true]
    unfold formatTag
    by_cases h : t.value = "" <;> simp [h, Opaque, OpaqueL]

/-- **one Put**: whatever the key, value and tags are, in both id modes, nothing the provider receives contains a
    plaintext atom -/
theorem C12_format_opaque (mk ek : Nat) (det : Bool) (key value : String) (tags : List Tag) (fresh : Nat) :
    OpaqueL (format mk ek det key value tags fresh) = true := by
  have h := opaqueL_map_formatTag mk tags
  unfold format docId
  cases det <;> simp [Opaque, OpaqueL, h]

/-- the `Key` tag of the non-deterministic mode, query expressions and store configurations are opaque -/
theorem C12_keyTag_opaque (mk : Nat) (key : String) : Opaque (keyTag mk key) = true := by
  simp [keyTag, Opaque, OpaqueL]

theorem C12_query_opaque (mk : Nat) (name : String) (value : Option String) :
    Opaque (formatQuery mk name value) = true := by
  cases value <;> simp [formatQuery, Opaque, OpaqueL]

theorem C12_config_opaque (mk : Nat) (names : List String) : Opaque (formatConfig mk names) = true := by
  unfold formatConfig
  simp only [Opaque]
  induction names with
  | nil => rfl
  | cons n ns ih => simp [OpaqueL, Opaque, ih]

/-- **every history**: any list of provider calls each of which is built from formatter outputs, key tags, query
    expressions, configurations, document ids and randomness is opaque as a whole -/
inductive Arg
  | put (det : Bool) (key value : String) (tags : List Tag) (fresh : Nat)
  | keyTag (key : String)
  | query (name : String) (value : Option String)
  | config (names : List String)
  | id (det : Bool) (key : String) (fresh : Nat)

def Arg.terms (mk ek : Nat) : Arg → List Term
  | .put det k v ts f => format mk ek det k v ts f
  | .keyTag k => [Sym.keyTag mk k]
  | .query n v => [formatQuery mk n v]
  | .config ns => [formatConfig mk ns]
  | .id det k f => [docId mk det k f]

theorem C12_history_opaque (mk ek : Nat) (calls : List Arg) :
    OpaqueL (calls.flatMap (Arg.terms mk ek)) = true := by
  induction calls with
  | nil => rfl
  | cons c cs ih =>
    simp only [List.flatMap_cons, opaqueL_append, ih, Bool.and_true]
    cases c with
    | put det k v ts f => exact C12_format_opaque mk ek det k v ts f
    | keyTag k => simp [Arg.terms, OpaqueL, C12_keyTag_opaque]
    | query n v => simp [Arg.terms, OpaqueL, C12_query_opaque]
    | config ns => simp [Arg.terms, OpaqueL, C12_config_opaque]
    | id det k f => cases det <;> simp [Arg.terms, OpaqueL, Opaque, docId]

/-- equal plaintexts do not give equal ciphertext terms: the JWE carries fresh randomness -/
theorem C12_fresh (mk ek : Nat) (det : Bool) (key value : String) (tags : List Tag) (f1 f2 : Nat) (h : f1 ≠ f2) :
    (format mk ek det key value tags f1)[1]? ≠ (format mk ek det key value tags f2)[1]? := by
  unfold format
  simp only [List.getElem?_cons_succ, List.getElem?_cons_zero, ne_eq, Option.some.injEq, Term.tuple.injEq,
    List.cons.injEq, Term.aead.injEq]
  intro hc
  have := hc.2.2.2.2.2.1.2.1
  omega

/-- the batch-crypto configuration as written is NOT opaque (recorded, outside the stated quantifier) -/
example : OpaqueL (batchFormatTags [⟨"color", "red"⟩]) = false := by decide

end Sym
