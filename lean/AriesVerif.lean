import AriesVerif.C11.Props
import AriesVerif.C11.Drv
