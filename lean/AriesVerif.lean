import AriesVerif.C11.Props
import AriesVerif.C11.Drv
import AriesVerif.C15.Props
import AriesVerif.C15.Drv
import AriesVerif.C19.Props
import AriesVerif.C19.Drv
import AriesVerif.C09.Props
import AriesVerif.C09.Drv
