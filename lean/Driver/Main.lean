import AriesVerif.C11.Drv
import AriesVerif.C15.Drv
import AriesVerif.C19.Drv
import AriesVerif.C09.Drv
import AriesVerif.C20.Drv
import AriesVerif.C18.Drv
import AriesVerif.C01.Drv
import AriesVerif.C12.Drv
import AriesVerif.C05.Drv
import AriesVerif.C14.Drv
import AriesVerif.C08.Drv
import AriesVerif.C13.Drv
import AriesVerif.C10.Drv
import AriesVerif.C03.Drv
import AriesVerif.C07.Drv
import AriesVerif.C16.Drv
import AriesVerif.C04.Drv
import AriesVerif.C17.Drv
/-! Line protocol: stdin lines `<caseid>\t<input>[\t<impl output>]`;
    stdout lines `<caseid>\t<model output>\t<spec output>\t<finding tags>`.
    For properties whose Spec is an oracle over observed behaviour the spec column is the implementation's output
    when the oracle accepts it and a verdict otherwise. The property is chosen by `argv[0]` (e.g. `driver C11`). -/

def dispatch (prop : String) (input : String) (impl : String) : String × String × String :=
  match prop with
  | "C11" =>
    -- open finding C11-F8: under non-deterministic key formatting every entry carries formattedstore's internal tag
    -- named "Key", so a caller's name-only query for a tag of that name returns every entry
    let nonDet := (input.splitOn "fnon").length > 1 || (input.splitOn "enon").length > 1
    let asksKey := ((input.splitOn "|").getLast?.getD "").splitOn ";" |>.any (·.startsWith "query Key")
    -- (for such histories the wrapper model makes no prediction of its own: the model column repeats the implementation,
    --  the Spec column still demands the key-value contract)
    if nonDet && asksKey then ("=", C11.Drv.handleSpec input, "C11-F8")
    else (C11.Drv.handle input, C11.Drv.handleSpec input, "")
  | "C15" => (C15.Drv.handle input, C15.Drv.handleSpec input, "")
  | "C08" => let r := Jws.Drv.judge input impl; (r.1, r.2, "")
  | "C17" => Bbs.Drv.judge input impl
  | "C04" => C04.Drv.judge input impl
  | "C16" => Codec.Drv.judge input impl
  | "C07" => Ldp.Drv.judge input impl
  | "C03" => C03.Drv.judge input impl
  | "C10" => Conn.Drv.judge input impl
  | "C13" => Lin.Drv.judge input impl
  | "C14" => (Route.Drv.handle input, Route.Drv.handleSpec input, "")
  | "C19" => (C19.Drv.handle input, C19.Drv.handleSpec input, "")
  | "C01" =>
    -- honest envelopes against the round-trip model; hand-sealed envelopes with foreign sender hints (the "true sender key"
    -- clause) against the C02 contract
    if input.endsWith "|none" then (Env.Drv.handle input, Env.Drv.handle input, "")
    else let r := Env.Drv.judgeMut input impl; (r.1, r.2, "")
  | "C02" => let r := Env.Drv.judgeMut input impl; (r.1, r.2, "")
  | "C05" => Kms.Drv.judge05 input impl
  | "C06" => Kms.Drv.judge06 input impl
  | "C12" => ("=", Sym.Drv.judge impl, "")
  | "C18" => C18.Drv.judge input impl
  | "C20" => (C20.Drv.handle input, C20.Drv.oracle input impl, "")
  | "C09" => (C09.Drv.handle input, C09.Drv.oracle input impl, C09.Drv.tags input impl)
  | _ => ("unknown-property", "unknown-property", "")

partial def loop (prop : String) (hin hout : IO.FS.Stream) : IO Unit := do
  let line ← hin.getLine
  if line.isEmpty then return ()
  let line := Util.chomp line
  if line.isEmpty then loop prop hin hout else
  match line.splitOn "\t" with
  | id :: input :: rest =>
    let impl := "\t".intercalate rest
    let (m, s, t) := dispatch prop input impl
    hout.putStrLn s!"{id}\t{m}\t{s}\t{t}"
    loop prop hin hout
  | _ => loop prop hin hout

def main (args : List String) : IO UInt32 := do
  match args with
  | [prop] =>
    let hout ← IO.getStdout
    loop prop (← IO.getStdin) hout
    hout.flush
    return 0
  | _ => IO.eprintln "usage: driver <property>"; return 2
