import AriesVerif.C04.Props
import AriesVerif.C04.Table
#print axioms C04.keytypes_consistent
#print axioms C04.keytypes_complete
#print axioms Aead.rawDecrypt_sound
#print axioms Aead.encrypt_parts
#print axioms Aead.tinkDecrypt_sound
#print axioms Aead.tinkDecrypt_complete
#print axioms Aead.C04_aead_roundtrip
#print axioms Aead.C04_aead_other_aad
#print axioms Aead.C04_aead_other_key
#print axioms Aead.C04_aead_never_wrong
#print axioms P1363.fromBytes_toBytes
#print axioms P1363.decode_encode
#print axioms P1363.decodeExact_encode
#print axioms P1363.decode_padded
#print axioms P1363.fromBytes_injective
#print axioms P1363.decodeExact_injective
