import AriesVerif.C20.Props
#print axioms C20.lenOK_iff
#print axioms C20.incrementUntilValid_sound
#print axioms C20.next_sound
#print axioms C20.evalSol_sound
#print axioms C20.evalSol_inv
#print axioms C20.holderLoop_sound
#print axioms C20.C20_holder_sound
#print axioms C20.C20_agree
#print axioms C20.C20_only_matching
