import AriesVerif.C15.Props
#print axioms C15.C15_model_refines_spec
#print axioms C15.C15_conservation
#print axioms C15.C15_fifo
#print axioms C15.C15_exactly_once
#print axioms C15.C15_no_loss
#print axioms C15.C15_count
#print axioms C15.C15_failed_pickup_noop
#print axioms C15.C15_takeCount
