import AriesVerif.C10.Props
import AriesVerif.C10.Rot
#print axioms Conn.putKeep_known
#print axioms Conn.C10_no_repoint
#print axioms Conn.C10_F1_overwrite_repoints
#print axioms Conn.applyKeep_fresh
#print axioms Conn.find?_perm_nodup
#print axioms Conn.C10_interleaving
#print axioms Conn.C10_attribution_authenticated
#print axioms Conn.C10_F2_unauthenticated_from
#print axioms Conn.C10_mirror
#print axioms Conn.Rot.C10_rotation_needs_prior_key
#print axioms Conn.Rot.C10_rotation_foreign_kid
#print axioms Conn.Rot.C10_rotation_only_that_connection
#print axioms Conn.Rot.C10_rotation_sender_is_sub
#print axioms Conn.Rot.C10_rotation_history
#print axioms Conn.Rot.C10_thread_ids_do_not_collide
