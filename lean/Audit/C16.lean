import AriesVerif.C16.Props
import AriesVerif.C16.RelId
#print axioms Codec.CustomFields.eq_of_key
#print axioms Codec.CustomFields.C16_custom_fields
#print axioms Codec.CustomFields.C16_custom_fields_nodup
#print axioms Codec.Varint.decode_encode
#print axioms Codec.oneOrMany_idem
#print axioms Codec.idOnly_idem
#print axioms Codec.RelId.C16_relative_id_roundtrip
#print axioms Codec.RelId.C16_wrong_base_witness
