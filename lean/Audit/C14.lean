import AriesVerif.C14.Props
#print axioms Route.nest_snoc
#print axioms Route.C14_unwrap
#print axioms Route.C14_unwrap_nil
#print axioms Route.C14_view
#print axioms Route.C14_view_inner
#print axioms Route.C14_opaque
#print axioms Route.C14_recipient_reads
#print axioms Route.C14_route_table
#print axioms Route.C14_forward_registered
#print axioms Route.C14_forward_unregistered
#print axioms Route.C14_held_only_there
#print axioms Route.C14_held_there
