import AriesVerif.C01.Props
#print axioms Env.find_pack
#print axioms Env.C01_roundtrip
#print axioms Env.C01_nonrecipient
#print axioms Env.C01_every_recipient
