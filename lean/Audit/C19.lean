import AriesVerif.C19.Props
#print axioms C19.C19_auth
#print axioms C19.C19_failed_noop
#print axioms C19.C19_isolation
#print axioms C19.C19_read_own
#print axioms C19.contentAuth_eq
#print axioms C19.keyAuth_eq
#print axioms C19.C19_model_refines_spec
