import AriesVerif.C07.Props
#print axioms Ldp.sameSet_append_comm
#print axioms Ldp.sameSet_dup
#print axioms Ldp.C07_array_order
#print axioms Ldp.C07_undefined_invisible_top
#print axioms Ldp.C07_strict_needed
#print axioms Ldp.C07_claims_differ_rejected
#print axioms Ldp.C07_proof_options_covered
#print axioms Ldp.C07_no_proof
#print axioms Ldp.C07_context_list_covered
#print axioms Ldp.C07_detached_proof_context
#print axioms Ldp.Strict.C07_F1_old_accepts
#print axioms Ldp.Strict.C07_F1_now_rejects
#print axioms Ldp.expected_of_no_case_variant
#print axioms Ldp.C07_case_variant_refused
