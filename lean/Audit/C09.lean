import AriesVerif.C09.Props
#print axioms C09.graphs_wellFormed
#print axioms C09.didexchange_table_ok
#print axioms C09.legacyconnection_table_ok
#print axioms C09.issuecredentialV2_table_ok
#print axioms C09.issuecredentialV3_table_ok
#print axioms C09.presentproofV2_table_ok
#print axioms C09.presentproofV3_table_ok
#print axioms C09.introduce_table_ok
#print axioms C09.within_of_table
#print axioms C09.isPathFrom_append
#print axioms C09.chain_isPath
#print axioms C09.reject_noop
#print axioms C09.reject_noop_outbound
#print axioms C09.terminal_absorbing
#print axioms C09.stale_callback_dropped
