import AriesVerif.C08.Props
#print axioms B64.decodeLenient_encode
#print axioms B64.decodeCanon_encode
#print axioms B64.decodeCanon_text
#print axioms B64.decodeCanon_injective
#print axioms B64.encode_injective
#print axioms B64.lenient_malleable_bits
#print axioms B64.canon_rejects
#print axioms Jws.joinDots_splitDots
#print axioms Jws.sigVerify_sound
#print axioms Jws.sigVerify_empty
#print axioms Jws.verify_sound
#print axioms Jws.C08_unknown_alg
#print axioms Jws.famOf_none
#print axioms Jws.resolve_exact
#print axioms Jws.C08_sound_attached
#print axioms Jws.C08_token_is_signed_text
#print axioms Jws.C08_no_malleability
