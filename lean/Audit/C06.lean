import AriesVerif.C05.Props
#print axioms Kms.C06_put_durable
#print axioms Kms.C06_rotate_durable
#print axioms Kms.C06_rotate_other
#print axioms Kms.C06_kid_pure
