import AriesVerif.C05.Props
#print axioms Kms.C05_stored_opaque
#print axioms Kms.C05_returned_opaque
#print axioms Kms.C05_history_opaque
#print axioms Kms.C05_lock
#print axioms Kms.C05_wrong_master
#print axioms Kms.C05_envelope_opaque
#print axioms Kms.C05_envelope_history_opaque
#print axioms Kms.C05_noop_envelope_not_opaque
#print axioms Kms.C05_foreign_dek_not_opaque
