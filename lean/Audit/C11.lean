import AriesVerif.C11.Props
