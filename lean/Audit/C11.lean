import AriesVerif.C11.Props
import AriesVerif.C11.NonDet
#print axioms C11.Refines.run_eq
#print axioms C11.mem_refines
#print axioms C11.ldb_refines
#print axioms C11.Cached.cached_refines
#print axioms C11.Batched.batched_refines
#print axioms C11.Formatted.formatted_refines
#print axioms C11.stack_refines
#print axioms C11.stack_init
#print axioms C11.C11_stack_history
#print axioms C11.C11_cached_prepopulated
#print axioms C11.C11_batched_prepopulated
#print axioms C11.NonDet.C11_nondet_reports_caller_key
#print axioms C11.NonDet.C11_F7_old_reports_formatted_key
