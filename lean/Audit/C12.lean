import AriesVerif.C12.Props
#print axioms Sym.C12_format_opaque
#print axioms Sym.C12_keyTag_opaque
#print axioms Sym.C12_query_opaque
#print axioms Sym.C12_config_opaque
#print axioms Sym.C12_history_opaque
#print axioms Sym.C12_fresh
