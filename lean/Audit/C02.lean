import AriesVerif.C02.Props
#print axioms Env.C02_same_cipher_same_payload
#print axioms Env.C02_aad_change_fails
#print axioms Env.accepted_shape
#print axioms Env.C02_no_reattribution
#print axioms Env.forgery_accepted_before_fix
#print axioms Env.forgery_refused_now
#print axioms Env.C02_attribution_is_authentication
#print axioms Env.C02_apu_first_splits_them
