import AriesVerif.C18.Props
#print axioms C18.C18_exact
#print axioms C18.issue_nodup
#print axioms C18.C18_uncommitted_rejected
#print axioms C18.C18_duplicate_rejected
#print axioms C18.C18_altered_rejected
#print axioms C18.C18_output_subset
