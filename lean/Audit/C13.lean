import AriesVerif.C13.Locks
import AriesVerif.C13.Spec
import AriesVerif.C13.Interleave
import AriesVerif.C13.Atomic
import AriesVerif.C13.Textbook
#print axioms C13.no_unguarded_access
#print axioms C13.no_write_under_read_lock
#print axioms C13.inventory_covers
#print axioms C13.multi_step_in_one_section
#print axioms C13.no_recursive_lock
#print axioms Lin.validate_sound
#print axioms Interleave.stepLocked_le_one
#print axioms Interleave.locked_at_most_one
#print axioms Interleave.unlocked_two_sessions
#print axioms Interleave.locked_closed_stays_dead
#print axioms Interleave.unlocked_session_resurrected
#print axioms Interleave.writeLocked_coherent
#print axioms Interleave.locked_coherent
#print axioms Interleave.unlocked_stale_cache
#print axioms Lin.respectsTime_go_of_lockOrder
#print axioms Lin.atomic_sections_linearizable
#print axioms Lin.perm_range_of_isPerm
#print axioms Lin.linearizable_textbook
#print axioms Interleave.open_store_one_object_per_name
#print axioms Interleave.open_store_unlocked_two_objects
#print axioms C13.open_store_lookup_and_register_in_one_section
