import AriesVerif.C17.Guards
import AriesVerif.C17.Props
import AriesVerif.C17.Algebra
import AriesVerif.C17.Cred
#print axioms Bbs.bitvector_testBit
#print axioms Bbs.indexes_of_bitvector
#print axioms Bbs.C17_payload
#print axioms Bbs.verifyOutcome_iff
#print axioms Bbs.spec_implies_model
#print axioms Bbs.C17_F1_supplemented_accepted
#print axioms Bbs.C17_exact_length
#print axioms Bbs.C17_dropped_refused
#print axioms Bbs.C17_context_bound
#print axioms Bbs.C17_index_in_range
#print axioms Bbs.Algebra.abar_is_x_aprime
#print axioms Bbs.Algebra.vc1_complete
#print axioms Bbs.Algebra.vc2_complete
#print axioms Bbs.Algebra.vc2_binds_disclosed
#print axioms Bbs.Guards.arity_is_exact
#print axioms Bbs.Guards.index_in_range_checked
#print axioms Bbs.Guards.enough_messages_checked
#print axioms Bbs.Cred.derived_only_selected
#print axioms Bbs.Cred.derived_all_selected
#print axioms Bbs.Cred.hidden_stays_hidden
#print axioms Bbs.Cred.revealIdx_in_range
#print axioms Bbs.Cred.revealIdx_discloses
#print axioms Bbs.Cred.revealIdx_ascending
#print axioms Bbs.Cred.perProof_same_document
