#!/bin/sh
# usage: tools/cover_prop.sh <property id> [seed] [tier]
# Diagnostic (not a check): builds the correspondence harness with coverage instrumentation of every aries package,
# runs the corpus + generated cases of one property through it, and prints per-function coverage of that property's
# anchored files, least covered first. Output dir: /var/tmp/cover-<id>. Do not run while ./check is running.
set -eu
ID=$1; SEED=${2:-1}; TIER=${3:-quick}
export GOFLAGS=-mod=mod GOPROXY=off GOSUMDB=off GOTOOLCHAIN=local CGO_ENABLED=0
HERE=$(cd "$(dirname "$0")/.." && pwd)
OUT=/var/tmp/cover-$ID; rm -rf "$OUT"; mkdir -p "$OUT/data"
cd "$HERE/harness"
PKGS=$(go list -tags verif -deps ./cmd/corr | grep '^github.com/hyperledger/aries-framework-go' | tr '\n' ',')
go build -tags verif -cover -coverpkg="verifharness/cmd/corr,$PKGS" -o "$OUT/corr-cover" ./cmd/corr
( cat "$HERE"/corpus/$ID/*.txt 2>/dev/null | grep -v '^#' | awk -F'\t' 'NF>=2' ; ./bin/corr gen "$ID" "$SEED" "$TIER" ) > "$OUT/cases.txt"
echo "cases: $(wc -l < "$OUT/cases.txt")"
# chunks of 300 so that a crash loses little
split -l 300 "$OUT/cases.txt" "$OUT/chunk."
for c in "$OUT"/chunk.*; do
  GOCOVERDIR="$OUT/data" timeout 900 "$OUT/corr-cover" run "$ID" < "$c" > /dev/null 2>&1 || true
done
go tool covdata textfmt -i="$OUT/data" -o "$OUT/cover.txt"
python3 "$HERE/tools/cov_report.py" "$ID" "$OUT/cover.txt"
