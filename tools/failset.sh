#!/bin/sh
# usage: failset.sh <dir-in-repo-module> <pkg pattern> ; prints failing test names (sorted)
cd "$1" && GOFLAGS=-mod=mod GOPROXY=off GOSUMDB=off go test -json -vet=off -count=1 $2 2>/dev/null | python3 -c "
import sys,json
f=set()
for l in sys.stdin:
    try: j=json.loads(l)
    except: continue
    if j.get('Action')=='fail' and j.get('Test'): f.add(j['Package'].split('/')[-1]+'::'+j['Test'])
print('\n'.join(sorted(f)))"
