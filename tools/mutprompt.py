#!/usr/bin/env python3
"""tools/mutprompt.py <property id> <n> [hint] — print the prompt for a seeding sub-agent.
The agent gets the property text only (nothing from /verif), a scratch worktree /tmp/wt-<id>-<n> and an output
directory /tmp/mut-out/<id>-<n>."""
import json, sys, os
pid, n = sys.argv[1], sys.argv[2]
hint = sys.argv[3] if len(sys.argv) > 3 else ""
here = os.path.dirname(os.path.dirname(os.path.abspath(__file__)))
prop = None
for line in open(os.path.join(here, "properties.jsonl")):
    d = json.loads(line)
    if d["id"] == pid:
        prop = d
assert prop
wt = f"/tmp/wt-{pid}-{n}"
out = f"/tmp/mut-out/{pid}-{n}"
print(f"""You are helping to evaluate a verification effort for the Go repository hyperledger/aries-framework-go.
You work ONLY in your own scratch git worktree of that repository: {wt}
(it already exists and is checked out at the current HEAD; never touch /repo or /verif, never read /verif).
The sandbox has no network. In every shell call export:
  export GOFLAGS=-mod=mod GOPROXY=off GOSUMDB=off GOTOOLCHAIN=local
The repository has several Go modules (root, component/kmscrypto, component/models, component/storageutil,
component/storage/edv, component/storage/leveldb, component/vdr, spi, ...). NOTE: the root module takes the
component/* modules from the module cache at released versions (see go.mod `require`/`replace`), so a change under
component/X is visible to tests of that component module itself (run `go test` inside component/X), and to root-module
packages only where root go.mod `replace`s it. Prefer to demonstrate in the module you changed.

Here is a semantic property of the code base that is supposed to hold:

id: {prop['id']}
title: {prop['title']}
statement: {prop['statement']}
quantified over: {prop['quantifier']['text']}
anchored in: {json.dumps(prop['anchors'])}

YOUR TASK: write ONE realistic change to the repository's non-test Go source (the kind of change a developer could make
by mistake in a refactoring, optimisation or feature commit: 3-40 changed lines, looks plausible in review) that BREAKS
this property, while
  (a) everything still compiles (`go build ./...` and `go vet` of the touched packages, also with `-tags verif`), and
  (b) the EXISTING tests of the touched packages and of the packages that directly use them still pass
      (run `go test -count=1` on them; some tests fail offline on the unchanged tree already — compare with the
      unchanged tree before blaming your change — save your change with `git diff > /tmp/<yourid>.diff`, `git checkout -- .`, run, then `git apply` it back; NEVER use `git stash`: the stash is shared by all worktrees of the repository and other agents work in theirs at the same time), and
  (c) the breakage needs something SPECIFIC to manifest: a particular interleaving, a crash or fault at a particular
      point, a multi-step sequence of operations, an unusual input or configuration, or two cooperating sites that each
      look fine alone. NOT something that ordinary use would expose at once.
{hint}
Do not edit existing tests. Do not just delete a check wholesale in the most obvious place; be subtle.

DELIVERABLES, written to the directory {out} (create it):
  1. patch.diff  — `git diff` of your change relative to HEAD (non-test source only), must apply with `git apply`.
  2. demo_test.go — a NEW Go test file (state in meta.json the path, relative to the worktree, where it must be
     copied and the exact `go test` command, with module directory) that PASSES on the unchanged tree and FAILS with
     your patch applied. The failure must show the property being violated (not merely a changed error text).
  3. meta.json — {{"property": "{pid}", "files": [...], "summary": "...what the change does and why the property
     breaks...", "needs": "...what exactly is needed for it to manifest...", "demo_dest": "<path rel to worktree>",
     "demo_module_dir": "<module dir rel to worktree>", "demo_cmd": "go test -count=1 -run <TestName> ./<pkg>/",
     "existing_tests": "...what you ran and the outcome..."}}
Before you finish: leave the worktree clean (`git checkout -- . && git clean -fdq` inside {wt}) and verify yourself,
from the clean worktree, that demo passes without the patch and fails with it. Reply with a five-line summary.
""")
