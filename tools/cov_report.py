#!/usr/bin/env python3
"""tools/cov_report.py <property id> <cover.txt> — per-function statement coverage of the property's anchored files.
Functions are found with a small brace-free scan of `func` declarations (next `func` at column 0 ends the previous)."""
import sys, json, os, re, collections
pid, cover = sys.argv[1], sys.argv[2]
here = os.path.dirname(os.path.dirname(os.path.abspath(__file__)))
anchors = []
for line in open(os.path.join(here, "properties.jsonl")):
    d = json.loads(line)
    if d["id"] == pid:
        anchors = d["anchors"]["files"]
PREFIX = "github.com/hyperledger/aries-framework-go/"
blocks = collections.defaultdict(list)  # rel file -> [(startline, endline, nstmt, count)]
for l in open(cover):
    if l.startswith("mode:"):
        continue
    m = re.match(r"(.+):(\d+)\.\d+,(\d+)\.\d+ (\d+) (\d+)", l)
    if not m or not m.group(1).startswith(PREFIX):
        continue
    rel = m.group(1)[len(PREFIX):]
    blocks[rel].append((int(m.group(2)), int(m.group(3)), int(m.group(4)), int(m.group(5))))
rows = []
tot = cov = 0
for rel, bl in sorted(blocks.items()):
    if not any(rel == a or rel.startswith(a.rstrip("/") + "/") for a in anchors):
        continue
    path = os.path.join("/repo", rel)
    if not os.path.exists(path):
        continue
    funcs = []
    for i, line in enumerate(open(path), 1):
        m = re.match(r"func\s+(\([^)]*\)\s*)?([A-Za-z0-9_]+)", line)
        if m:
            funcs.append((i, m.group(2)))
    funcs.append((10**9, None))
    for (start, name), (nxt, _) in zip(funcs, funcs[1:]):
        n = c = 0
        for (s, e, ns, cnt) in bl:
            if start <= s < nxt:
                n += ns
                c += ns if cnt > 0 else 0
        if n:
            rows.append((c / n, n - c, rel, name, start))
            tot += n
            cov += c
rows.sort(key=lambda r: (r[0], -r[1]))
print("property %s: %d/%d statements of anchored files covered (%.1f%%)" % (pid, cov, tot, 100.0 * cov / max(tot, 1)))
for frac, miss, rel, name, start in rows:
    if frac < 0.999 and miss >= 3:
        print("%5.1f%%  miss=%-3d %s:%d %s" % (100 * frac, miss, rel, start, name))
