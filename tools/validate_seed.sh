#!/bin/sh
# usage: validate_seed.sh <worktree> <patch.diff> <demo file> <dest path rel to worktree> <module dir rel> <go test args...>
# runs the demonstration without and with the patch in the scratch worktree; prints PASS/FAIL for both
WT=$1; PATCH=$2; DEMO=$3; DEST=$4; MOD=$5; shift 5
export GOFLAGS=-mod=mod GOPROXY=off GOSUMDB=off
cd "$WT" || exit 2
git checkout -q -- . ; git clean -fdq
cp "$DEMO" "$WT/$DEST"
( cd "$WT/$MOD" && go test -count=1 "$@" >/tmp/vs-clean.log 2>&1 ) && echo "unmodified: PASS" || echo "unmodified: FAIL"
git apply "$PATCH" || { echo "patch does not apply"; exit 2; }
( cd "$WT/$MOD" && go test -count=1 "$@" >/tmp/vs-mut.log 2>&1 ) && echo "mutated: PASS" || echo "mutated: FAIL"
git checkout -q -- . ; git clean -fdq
