#!/usr/bin/env python3
"""regenerate MANIFEST.json from the table below (keeps it valid at all times)"""
import json, os
ROOT = os.path.dirname(os.path.dirname(os.path.abspath(__file__)))
TITLES = {j["id"]: j["title"] for j in map(json.loads, open(os.path.join(ROOT, "properties.jsonl")))}

CLAIMS = {
 "C11": dict(
  text="Lean 4 theorems: mem, the caching and batching wrappers over ANY conforming provider, and every well-formed wrapper stack of every depth refine the key-value Spec for every history (C11_stack_history, cached_refines, batched_refines, stack_refines, *_prepopulated); the hand-written models are tied to the Go code by a correspondence run (seeded histories over 29 stacks incl. LevelDB and both formatter modes, pre-populated providers) comparing the real stores with the compiled Lean model and Spec after every operation",
  note="trusted: Lean kernel; axioms propext/Classical.choice/Quot.sound; Go harness + Lean driver glue; formattedstore and LevelDB are modelled observationally (Spec + provider parameters) and validated by correspondence only; goleveldb/encoding/json not modelled",
  technique="Lean 4 refinement proof + model/implementation correspondence"),
 "C15": dict(
  text="Lean 4 theorems for every history of add / status / pickup (any batch size, any number of recipients) and any fault: the handlers as written refine the queue Spec (C15_model_refines_spec); delivered ++ held = accepted (C15_conservation) hence FIFO, exactly-once and no loss under any failure; count = |held|; failed pickup is a no-op. Tie: correspondence of the real messagepickup service (fault-injecting store and outbound) with the compiled Lean model incl. the stored inbox document",
  note="trusted: Lean kernel; allowed axioms; harness fault injection and mock outbound; handlers driven synchronously through a verif-tagged export; JSON encoding of the inbox modelled as (list, count)",
  technique="Lean 4 invariant/refinement proof + fault-injecting correspondence"),
 "C08": dict(
  text="Lean 4 theorems about the model of jose.parseCompacted + jwt.NewVerifier / GetVerifier + didsignjwt key resolution + the signature verifiers, for every token text, header and set of produced signatures: an accepted attached token is character for character <signed message>.<base64url(signature)> of a signature the holder of the resolved key produced over exactly that message, with a procedure of the algorithm named in the header, under a key of that algorithm's type (C08_sound_attached, C08_token_is_signed_text, C08_no_malleability, sigVerify_sound, verify_sound, resolve_exact); algorithms outside the table (none, HS256, other spellings) are refused by every signature-checking entry (C08_unknown_alg, famOf_none); an empty signature never verifies (sigVerify_empty). Base64url model of encoding/base64: round trip for every byte string, canonical decoding is injective, the lenient decoder is malleable (B64.decodeLenient_encode, decodeCanon_injective, lenient_malleable_*). Tie: correspondence of the four real entry points on hand-built, mutated and crossed tokens (all algorithms, key types, raw/JWK methods, attached/detached/b64=false) with the compiled model run on the very token text, the Spec column re-checking the theorem's conclusion on every accepted token; random strings tie the base64 model to the standard library",
  note="trusted: Lean kernel; allowed axioms; ideal signatures (only produced tuples verify; ECDSA (r,n-s) twin outside the model); Lean.Json for header parsing; DER ECDSA signatures accepted by design; completeness (honest tokens accepted) is checked by correspondence only",
  technique="Lean 4 soundness proof of the parse/verify decision logic + base64url model + token-level correspondence"),
 "C17": dict(
  text="Lean 4 theorems: (bookkeeping, core Lean) for every message count below 2^16 and every strictly ascending revealed index list below it, the payload DeriveProof writes is read back by VerifyProof as the same count and the same indexes whatever follows it (C17_payload, via the bit-level invariant bitvector_testBit and sorted_ext); the code as written binds the i-th handed message to the i-th disclosed index and ignores whatever follows the disclosed count (verifyOutcome_iff), so a vector of exactly the disclosed length is accepted iff it is the disclosed vector (C17_exact_length: changed / reordered / shifted refused), a shorter one is refused (C17_dropped_refused), an index beyond the count is refused (C17_index_in_range), and a SUPPLEMENTED vector is accepted (C17_F1_supplemented_accepted - the open finding as a theorem). (group side, Mathlib, abstract K-module) what DeriveProof computes satisfies both equations VerifyProof checks for every message count and every revealed set (vc1_complete, vc2_complete), the pairing check holds because A-bar = x.A' (abar_is_x_aprime), and for one proof and one non-zero challenge the second equation leaves no freedom in the disclosed messages when the generators are linearly independent (vc2_binds_disclosed). Tie: correspondence of the real primitive and tinkcrypto service (all subsets for small n, random up to 65 messages, ten kinds of altered verifier input, double verification) with the compiled model, incl. the exact payload bytes",
  note="trusted: Lean kernel; allowed axioms; ideal proof system for the negative cases (soundness under discrete log and random-oracle challenge is assumed, not proved); IBM/mathlib curve arithmetic; credential-level reveal frames not driven here. Open finding C17-F1 (supplemented vector accepted) is reported as KNOWN-FINDING: existing unit tests and the LEGACY-prefix wrapper rely on it",
  technique="Lean 4 bit-level codec proof + abstract-module completeness/binding proof (Mathlib) + correspondence"),
 "C14": dict(
  text="Lean 4 theorems: for routing-key chains of every length, unwrapping by the mediators in order hands exactly the packed original to the recipient key and each mediator reads only the previous key and an envelope packed for that key (nest_snoc, C14_view, C14_unwrap); nobody holding none of the recipient keys - any coalition of all mediators - can obtain the application message from what is sent (C14_opaque, with C14_recipient_reads as non-vacuity); for every history of keylist updates / forwards / pickups from any number of clients the route table maps a key to its most recent registrant (C14_route_table), a forward goes to, or is held for, exactly that client (C14_forward_registered, C14_held_there, C14_held_only_there) and an unregistered key is refused without effect (C14_forward_unregistered). Tie: correspondence of the real outbound dispatcher + packagers (own KMS per agent) + real mediator and messagepickup services per hop, over five media-type profiles, all key types, chains 0..6, with the compiled term-level model and the closed-form contract",
  note="trusted: Lean kernel; allowed axioms; symbolic encryption (C01/C02 carry the cryptographic half); recording bus; handlers driven synchronously through verif hooks; route table modelled as written (last writer wins, remove unimplemented - design remarks, not counted as violations)",
  technique="Lean 4 induction over chain length and route histories + multi-agent correspondence"),
 "C19": dict(
  text="Lean 4 theorems: for every history over any number of profiles and every token ever issued (own, foreign, closed, expired, garbage) the wallet code as written answers exactly as the token-capability Spec (C19_model_refines_spec, with the owner-check/session-cache/store-cache model and the invariants token-unique, session=>store-cached); at Spec level: refused <=> token not a live token of that very profile (C19_auth), refused operations change nothing (C19_failed_noop), no operation on wallet w touches contents of q != w (C19_isolation), reads return own content only. Tie: correspondence of real wallet.Wallet over one shared provider (multi-profile histories incl. real expiry) with the compiled model",
  note="trusted: Lean kernel; allowed axioms; gcache expiry driven by the real clock (150 ms / 420 ms sleep); harness provider whose stores survive Close; Metadata stands for all content types; DidComm wrapper methods not driven",
  technique="Lean 4 refinement + invariant proof + multi-tenant correspondence"),
 "C09": dict(
  text="(1) the CanTransitionTo relation and message-target maps of all five protocol state machines are REGENERATED on every run by running the real code on the complete finite domain (verif export hooks) into Generated/States.lean; Lean `decide` theorems over the generated tables: every allowed transition is an edge of the published graph (Spec/C09), terminal states have no outgoing transition, no transition switches role, every message target is a declared state. (2) engine theorems for any table within the graph: the states announced by one execution loop form a path (chain_isPath, any Execute behaviour / fuel), a message not allowed in the current state is rejected without change (reject_noop), terminal states are never left by a message (terminal_absorbing), a stale parked callback is dropped (stale_callback_dropped). (3) correspondence: seeded and guided message sequences against the real present-proof and issue-credential services (v2+v3; every message type, duplicates, out-of-order, every continue option / stop) - the compiled engine model predicts accept/reject, announced post-states and persisted state exactly, and the Lean oracle checks path validity of what the implementation announced",
  note="trusted: Lean kernel; allowed axioms; export hooks (state lists are written in the hook files); hand-written Execute tables ppExec/icExec (validated by correspondence); didexchange / connection / introduce decided at table level only; a general invariant theorem over parked histories is not proved (open finding C09-F2 shows it is false for issue-credential)",
  technique="regenerated transition tables + Lean decide obligations + engine lemmas + trace correspondence"),
 "C20": dict(
  text="Lean 4 theorems about the model of requirementlogic.go / applyRequirement / Match as written: for every requirement tree (all / pick count min max, nested), every descriptor list and every matching predicate, the descriptor subset the holder settles on satisfies the requirement logic and every descriptor in it has a matching credential (C20_holder_sound, via incrementUntilValid_sound / evalSol_sound over any iterator state and fuel), the repaired verifier accepts it (C20_agree), every (descriptor, credential) pair of the descriptor map matches (C20_only_matching), isLenApplicable means what the spec says (lenOK_iff). Tie: correspondence of the real CreateVP -> MarshalJSON -> ParsePresentation -> Match on generated definitions x credential sets with the compiled model (exact descriptor map and verifier result) plus a Lean oracle on the implementation's output (requirement satisfied, pairs match, verifier agrees, and 'no credentials' only when brute force over all descriptor subsets finds no solution)",
  note="trusted: Lean kernel; allowed axioms; gval/jsonpath + gojsonschema (constraint evaluation is the driver's credMatches for the generator's four filter kinds); iterator completeness is checked per case by brute force (search), not proved; limit_disclosure / SD-JWT / BBS+ credentials not generated",
  technique="Lean 4 soundness proof of the solution iterator + holder/verifier correspondence"),
 "C18": dict(
  text="Lean 4 theorems (flat claims, ideal salted hash): for every claim list, every SD selection and every sub-list of disclosures presented the verifier outputs exactly visible ++ chosen (C18_exact, premise discharged by issue_nodup), every output claim is visible or chosen (C18_output_subset), an uncommitted / altered / duplicated disclosure is rejected (C18_uncommitted_rejected, C18_altered_rejected, C18_duplicate_rejected). The general nested model (Model.lean: discloseClaimValue with _sd levels, recursive disclosures, array elements, cleanup, both verifier stages, holder binding) is tied to the code by correspondence: real issuer.New (v2/v5, structured, non-SD, recursive, always-include, decoys, 3 hash algs) -> holder -> verifier.Parse on generated claim trees x subsets x tampering x binding variants; the model predicts the verifier's outcome exactly, and a Lean oracle checks the output against the ORIGINAL claims restricted to visible + chosen (project) and that tampered / unverifiable presentations are rejected",
  note="trusted: Lean kernel; allowed axioms; SHA-2 / Ed25519 ideal (digests replaced by disclosure indices by the harness); the nested model has no general exactness theorem yet (flat case proved); json.Number normalisation (C18-F3); open finding C18-F1 (empty arrays / nulls)",
  technique="Lean 4 proof (flat) + executable nested model correspondence + claims-level oracle"),
 "C01": dict(
  text="Lean 4 theorems over a symbolic (ideal-crypto) envelope model with every dispatch of the unpack path explicit: for every payload, every recipient list of any length, authcrypt and anoncrypt, a key ring whose first owned key in the list is r unpacks exactly (payload, true sender | none, r) (C01_roundtrip, C01_every_recipient) and a key ring holding no recipient key fails (C01_nonrecipient). Tie: correspondence of the real packers (JWE authcrypt/anoncrypt over X25519 and P-256/384/521 with 6 content encryptions, legacy authcrypt/anoncrypt; did:key and DID-document kid styles; compact and JSON serialisation by recipient count) with one KMS per party - sender, every recipient and an outsider unpack - against the outcome the model predicts, including the two configuration classes in which Pack itself refuses",
  note="trusted: Lean kernel; allowed axioms; cryptographic primitives and their libraries are ideal (Dolev-Yao terms); PKCS#7 / CBC-HMAC framing and base64 are exercised by the payload-size sweep, not proved",
  technique="Lean 4 proof over symbolic crypto + multi-KMS pack/unpack correspondence"),
 "C02": dict(
  text="Lean 4 theorems over the same symbolic model: any envelope assembled around the original ciphertext yields the original payload or fails (C02_same_cipher_same_payload), any change of the associated data fails (C02_aad_change_fails), an accepted envelope's reported sender is the protected skid and the used key-encryption key is the 1PU term over exactly that sender (accepted_shape), hence no envelope an outsider can build is attributed to a key it does not hold (C02_no_reattribution); the repaired defect C02-F1 as decide-checked before/after examples. Tie: mutation correspondence on real envelopes (character flips / truncations in every base64 field, protected-header edits, cross-envelope splices, recipient drop/dup/swap, re-serialisation, unprotected headers), every party unpacking original and mutant: fail-or-same for every party, fail for everybody when an authenticated field's bytes changed; the baseline must equal the C01 model's prediction",
  note="trusted: as C01; encoding/base64 decides 'decoded bytes changed'; the model does not predict fail-vs-same per unauthenticated mutation; KDF byte layout (kdfWithTag) is not compared byte-exactly yet",
  technique="Lean 4 proof over symbolic crypto + mutation correspondence with fail-or-same oracle"),
 "C12": dict(
  text="Lean 4 theorems over symbolic terms (ideal MAC / JWE): everything the EDV formatter hands to the provider for one Put is opaque for every key, value, tag list and both id modes (C12_format_opaque), so are the Key tag of the non-deterministic mode, query expressions and store configurations; any history of provider calls built from these is opaque as a whole (C12_history_opaque, induction over the call list); equal plaintexts give different ciphertext terms (C12_fresh). Tie: the real formattedstore + EncryptedFormatter over a recording provider - every argument of every call is mapped back to a symbolic term with the harness's own keys and judged by the same Opaque predicate (an unexplained argument is a plaintext atom), and every recorded byte string is scanned for every application plaintext in five encodings",
  note="trusted: Lean kernel; allowed axioms; HMAC / JWE ideal; the harness's recogniser; store names excluded as the property states; call SEQUENCES of formattedstore are not predicted by the model (the opacity of each argument is)",
  technique="Lean 4 opacity proof over symbolic terms + recording-provider correspondence and plaintext scan"),
 "C05": dict(
  text="Lean 4 theorems over symbolic terms: the term every store write consists of (keyset under the envelope AEAD + public keyset info) and everything the API returns (thumbprint / random / named id, public key) is opaque w.r.t. key material, for every history of calls (C05_history_opaque); the master key is only held under the passphrase-derived lock (C05_lock); nothing is usable through a key manager opened with another master key (C05_wrong_master). Tie: real localkms + local secret lock (raw / HKDF / PBKDF2) over a recording store: per-call success predicted by the model, every stored value and every API return scanned for every private / symmetric key byte string and the master key in five encodings, wrong master key / passphrase must fail on every id",
  note="trusted: Lean kernel; allowed axioms; Tink keyset encryption / AES-GCM / KDFs ideal; the harness obtains the secret bytes through Tink's cleartext export and protobuf field numbers",
  technique="Lean 4 opacity proof + recording-store scan correspondence"),
 "C06": dict(
  text="Lean 4 theorems with every key manager call as a list of storage steps and a crash as a prefix: Create / Import never destroy another key at any crash point (C06_put_durable); the key material usable before a Rotate is retrievable after ANY prefix of its storage steps, under the old id until it is deleted and under the new id afterwards (C06_rotate_durable), other keys are untouched (C06_rotate_other); the id of a created asymmetric key depends on the key alone (C06_kid_pure); the repaired defect C06-F1 as a decide-checked loss under the old step order. Tie: real localkms over a store that freezes after the k-th mutating call of the last operation (all crash points), then a fresh key manager over the surviving store probes every key; ids compared with the thumbprint of the exported public key; the model predicts every call result and probe",
  note="trusted: Lean kernel; allowed axioms; Tink ideal; did:key round trip of kids is part of C16; open finding C06-F2 (ImportPrivateKey without id returns a random id)",
  technique="Lean 4 crash-prefix durability proof + freezing-store / reopen correspondence"),
}

def main():
    base = json.load(open("/root/.vp/BASELINE.json"))["cmd"]
    checks = []
    for pid in sorted(CLAIMS):
        c = CLAIMS[pid]
        checks.append({
            "property_id": pid,
            "quick_cmd": "./check %s --tier quick" % pid,
            "thorough_cmd": "./check %s --tier thorough" % pid,
            "evidence_file": "evidence/%s.json" % pid,
            "replay_cmd_template": "./check %s --replay {path}" % pid,
            "engine": "lean-proof+correspondence",
            "level_claimed": {"category": c.get("category", "proof"), "text": c["text"], "design_ref": "DESIGN.md §5 " + pid},
            "level_note": c["note"],
            "technique": c["technique"],
        })
    hooks_commits = []
    hf = os.path.join(ROOT, "hooks_commits.txt")
    if os.path.exists(hf):
        hooks_commits = [l.split()[0] for l in open(hf) if l.strip() and not l.startswith("#")]
    m = {
        "version": 1,
        "setup_cmd": "./setup.sh",
        "hooks": {"guard": "verif",
                  "enable": "go build -tags verif (the harness module replaces every aries module by /repo/...)",
                  "baseline_off_cmd": base, "source_commits": hooks_commits, "add_only": True},
        "engines": [{"name": "lean-proof+correspondence", "path": "check", "serves_properties": sorted(CLAIMS),
                     "kind_free_text": "Lean 4 models and theorems (lean/), Go correspondence harness (harness/cmd/corr), "
                                       "go/ast translators (harness/cmd/extract), python driver (check)"}],
        "checks": checks,
        "notes": "see DESIGN.md; known_findings.jsonl lists repaired (fixed) and open findings",
        "not_applicable": [{"property_id": p, "reason": NOT_APPLICABLE.get(p, "check not built yet (work in progress, DESIGN.md §9); not claimed")}
                           for p in sorted(TITLES) if p not in CLAIMS],
    }
    json.dump(m, open(os.path.join(ROOT, "MANIFEST.json"), "w"), indent=1)
    print("MANIFEST.json: %d checks, %d not claimed" % (len(checks), len(m["not_applicable"])))

NOT_APPLICABLE = {}

if __name__ == "__main__":
    main()
