#!/bin/sh
# usage: tools/proc_seed.sh <property id> <round tag> [check id (default: property id)] [seed]
# validates /tmp/mut-out/<id>-<tag> in the worktree /tmp/wt-<id>-<tag> (demo passes unmodified, fails mutated), then
# applies the patch to /repo, runs the quick check, undoes the patch.
set -u
ID=$1; TAG=$2; CID=${3:-$1}; SEED=${4:-1}
OUT=/tmp/mut-out/$ID-$TAG; WT=/tmp/wt-$ID-$TAG
HERE=$(cd "$(dirname "$0")/.." && pwd)
DEST=$(jq -r .demo_dest "$OUT/meta.json"); MOD=$(jq -r .demo_module_dir "$OUT/meta.json"); CMD=$(jq -r .demo_cmd "$OUT/meta.json")
echo "dest=$DEST mod=$MOD cmd=$CMD"
ARGS=$(echo "$CMD" | sed 's/^.*go test -count=1 //; s/^go test //')
# shellcheck disable=SC2086
sh "$HERE/tools/validate_seed.sh" "$WT" "$OUT/patch.diff" "$OUT/demo_test.go" "$DEST" "$MOD" $ARGS
sh "$HERE/tools/try_mutation.sh" "$CID" "$OUT/patch.diff" "$SEED"
