#!/usr/bin/env python3
"""keep a validated seeded mutation: tools/keep_seed.py <src dir> <name> <check result line> <validation note>"""
import sys, os, json, shutil
src, name, result, note = sys.argv[1:5]
dst = os.path.join(os.path.dirname(os.path.dirname(os.path.abspath(__file__))), "seeded", name)
os.makedirs(dst, exist_ok=True)
for f in os.listdir(src):
    shutil.copy(os.path.join(src, f), os.path.join(dst, f))
mp = os.path.join(dst, "meta.json")
meta = json.load(open(mp)) if os.path.exists(mp) else {}
meta["validated"] = note
meta["check_result"] = result
json.dump(meta, open(mp, "w"), indent=1)
print("kept", dst)
