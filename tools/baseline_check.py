#!/usr/bin/env python3
"""Run the pinned test suite (all Go modules of /repo, build tag off) and report every test of BASELINE.stable_pass that
does not pass now.  usage: tools/baseline_check.py [module ...]   (default: all modules)"""
import json, os, subprocess, sys
base = json.load(open("/root/.vp/BASELINE.json"))
stable = set(base["stable_pass"])
mods = sys.argv[1:] or [".", "cmd/aries-agent-mobile", "cmd/aries-agent-rest", "component/didconfig", "component/kmscrypto",
                        "component/log", "component/models", "component/storage/edv", "component/storage/leveldb",
                        "component/storageutil", "component/vdr", "spi"]
env = dict(os.environ, GOFLAGS="-mod=mod", GOPROXY="off", GOSUMDB="off")
status = {}
for m in mods:
    p = subprocess.Popen(["go", "test", "-json", "-vet=off", "-count=1", "-timeout", "25m", "./..."], cwd=os.path.join(os.environ.get("VERIF_REPO", "/repo"), m),
                         env=env, stdout=subprocess.PIPE, stderr=subprocess.DEVNULL, text=True)
    for line in p.stdout:
        try:
            j = json.loads(line)
        except Exception:
            continue
        if j.get("Test") and j.get("Action") in ("pass", "fail", "skip"):
            status[j["Package"] + "::" + j["Test"]] = j["Action"]
    p.wait()
    print("module", m, "done", flush=True)
seen_pkgs = {k.split("::")[0] for k in status}
bad = sorted(t for t in stable if t.split("::")[0] in seen_pkgs and status.get(t) != "pass")
print("stable_pass tests in the packages run:", sum(1 for t in stable if t.split("::")[0] in seen_pkgs), "not passing now:", len(bad))
for t in bad:
    print("REGRESSION", t, status.get(t, "missing"))
