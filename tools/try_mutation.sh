#!/bin/sh
# usage: try_mutation.sh <property id> <patch.diff> [seed]  — apply to /repo, run the quick check, undo
set -u
cd /repo || exit 2
git diff --quiet || { echo "repo dirty"; exit 2; }
git apply "$2" || { echo "patch does not apply"; exit 2; }
cd /verif
VERIF_SEED=${3:-1} ./check "$1" --tier quick | grep -E "VIOLATION|tier=|^#" | head -8
git -C /repo checkout -- . && git -C /repo clean -fdq
