#!/bin/sh
# usage: try_mutation.sh <property id> <patch.diff> [seed]  — apply to /repo, run the quick check, undo.
# The evidence file written by the run on the MUTATED tree is put back afterwards (the committed evidence describes the
# unchanged tree).
set -u
cd /repo || exit 2
git diff --quiet || { echo "repo dirty"; exit 2; }
git apply "$2" || { echo "patch does not apply"; exit 2; }
cd /verif
cp "evidence/$1.json" "/var/tmp/evidence-$1.keep" 2>/dev/null
VERIF_SEED=${3:-1} ./check "$1" --tier quick | grep -E "VIOLATION|tier=|^#" | head -8
git -C /repo checkout -- . && git -C /repo clean -fdq
[ -f "/var/tmp/evidence-$1.keep" ] && mv "/var/tmp/evidence-$1.keep" "evidence/$1.json"
