#!/bin/sh
# Build the framework from files on disk only (offline): Go harness against /repo, Lean project (kernel-checks every theorem).
set -e
cd "$(dirname "$0")"
export GOFLAGS=-mod=mod GOPROXY=off GOSUMDB=off GOTOOLCHAIN=local CGO_ENABLED=0
mkdir -p harness/bin evidence replays
( cd harness && cat /repo/go.sum /repo/component/*/go.sum /repo/component/storage/edv/go.sum /repo/component/storage/leveldb/go.sum /repo/spi/go.sum /repo/test/component/go.sum go.sum 2>/dev/null | sort -u > go.sum.new && mv go.sum.new go.sum \
  && go build -tags verif -o bin/corr ./cmd/corr && go build -tags verif -o bin/extract ./cmd/extract )
mkdir -p lean/AriesVerif/Generated
( cd harness && for x in states:States keytypes:KeyTypes panicsites:PanicSites locks:Locks; do ./bin/extract ${x%%:*} > ../lean/AriesVerif/Generated/${x##*:}.lean || exit 1; done )
( cd lean && lake build )
echo setup-ok
